"""Engine S3: abstract form -> descriptor (Descriptor.tla), option sources (Options.tla).

Division of labour (BUILDER_BRIEF): TLC enumerates the abstract cases and *computes the expected value
and the comparison*; this file only (a) turns TLC-emitted abstract cases into real UFL objects / real
`python -m ffcx` runs, (b) projects the real artefacts (ufcx_form fields read through cffi, kernel
results, generated files, nm symbol tables) into small JSON values, (c) runs TLC and reads verdicts.

Worker entry points (run in child processes with env=common.child_env()):
    python -m harness.s3 c06worker JOB.json OUT.json
    python -m harness.s3 pairworker JOB.json OUT.json
"""

from __future__ import annotations

import json
import os
import random
import re
import subprocess
import sys
import time
from concurrent.futures import ThreadPoolExecutor
from pathlib import Path

from . import common, tlc
from .common import MachineryError

NWORKERS = max(1, min(6, common.NCPU))

# ---------------------------------------------------------------------------
# reading multi-line PrintT output


def printed_values(out: str, heads: tuple[str, ...]):
    """All tuples `<< "HEAD", ... >>` PrintT'ed by TLC (the pretty-printer wraps long values)."""
    vals = []
    buf: list[str] | None = None
    depth = 0
    for line in out.splitlines():
        if buf is None:
            if not line.startswith("<<"):
                continue
            buf, depth = [], 0
        buf.append(line)
        instr = False
        j = 0
        while j < len(line):
            ch = line[j]
            if instr:
                if ch == "\\":
                    j += 1
                elif ch == '"':
                    instr = False
            elif ch == '"':
                instr = True
            elif line.startswith("<<", j):
                depth += 1
                j += 1
            elif line.startswith(">>", j):
                depth -= 1
                j += 1
            j += 1
        if depth <= 0:
            text = "\n".join(buf)
            buf = None
            try:
                v = tlc.parse_tla(text)
            except Exception:
                continue
            if isinstance(v, list) and v and v[0] in heads:
                vals.append(v)
    return vals


def _tlc_cfg(spec: str, consts: dict, invs: list[str]) -> str:
    lines = [f"SPECIFICATION {spec}", "CONSTANTS"]
    for k, v in consts.items():
        lines.append(f"  {k} = {tlc.tla(v) if not isinstance(v, str) or not v.startswith('@') else v[1:]}")
    lines += [f"INVARIANT {i}" for i in invs]
    return "\n".join(lines) + "\n"


# ===========================================================================
# C06  Descriptor.tla
# ===========================================================================

DESC_MODULES = ["Descriptor", "DescriptorJudge"]
THEOREMS = ["CanonConforms", "FoldRejected", "ShortRejected", "CountedOncePerId"]
TYPE_ABBR = {"cell": "c", "exterior_facet": "ef", "interior_facet": "if", "vertex": "v", "ridge": "r"}
RULE_ABBR = {"default": "d", "deg1": "q1", "deg3": "q3"}


def form_key(F: dict) -> str:
    ints = "|".join(
        f"{TYPE_ABBR[i['type']]}:{'e' if not i['sub'] else '.'.join(map(str, i['sub']))}:{RULE_ABBR[i['rule']]}"
        for i in F["integrals"])
    return f"{F['cell']}/r{F['rank']}/[{ints}]/w={','.join(F['coefs']) or '-'}/{F['cpat']}"


def _norm_form(F: dict) -> dict:
    return {"cell": F["cell"], "rank": F["rank"], "cpat": F["cpat"], "coefs": list(F["coefs"]),
            "integrals": [{"type": i["type"], "sub": list(i["sub"]), "rule": i["rule"]} for i in F["integrals"]]}


def desc_model_check(chk, maxlen: int):
    """The spec-level theorems on the whole bounded domain (no real code involved)."""
    d = tlc.stage("desc-mc", ["Descriptor"])
    r = tlc.run(d, "Descriptor", cfg_text=_tlc_cfg("ESpec", {"MaxLen": maxlen, "What": "shapes"}, THEOREMS),
                workers=min(8, common.NCPU), timeout=1500)
    tlc.must_ok(r, "Descriptor.tla theorems")
    if r.violated:
        raise MachineryError(f"Descriptor.tla: spec-level theorem {r.violated} fails - the specification is wrong:\n"
                             + "\n".join(r.error_trace[:40]))
    chk.add(states=r.distinct, transitions=r.generated)
    chk.note(f"Descriptor.tla domain MaxLen={maxlen}: {r.distinct} states (shapes + abstract forms), "
             f"theorems {', '.join(THEOREMS)} hold on all of them ({r.wall_s:.1f}s)")
    return r


def desc_emit(what: str, maxlen: int, simulate: str | None = None, seed: int | None = None, depth=None):
    d = tlc.stage("desc-emit-" + what, ["Descriptor"])
    r = tlc.run(d, "Descriptor", cfg_text=_tlc_cfg("ESpec", {"MaxLen": maxlen, "What": what}, ["Emit"]),
                workers=1, simulate=simulate, seed=seed, depth=depth, timeout=900)
    tlc.must_ok(r, f"Descriptor.tla emit {what}")
    forms, seen = [], set()
    for v in printed_values(r.out, ("FORM",)):
        F = _norm_form(v[1])
        k = form_key(F)
        if k not in seen:
            seen.add(k)
            forms.append(F)
    if not forms:
        raise MachineryError("TLC emitted no abstract forms:\n" + r.out[-2000:])
    return forms, r


def _shape_features(F: dict) -> set:
    ints = F["integrals"]
    feats = set()
    for i in ints:
        shape = "e" if not i["sub"] else ("s" if len(i["sub"]) == 1 else "t")
        feats.add(("cts", F["cell"], i["type"], shape))
        if i["rule"] != "default":
            feats.add(("rule", F["cell"], i["type"], i["rule"]))
    for a in range(len(ints)):
        for b in range(a + 1, len(ints)):
            A, B = ints[a], ints[b]
            feats.add(("pair", F["cell"], A["type"], B["type"]))
            if A["type"] == B["type"]:
                sa, sb = set(A["sub"]) or {-1}, set(B["sub"]) or {-1}
                if A["sub"] and B["sub"] and min(A["sub"]) > min(B["sub"]):
                    feats.add(("descending", F["cell"], A["type"]))
                if sa & sb:
                    feats.add(("overlap", F["cell"], A["type"], len(sa) > 1, len(sb) > 1))
                if (not A["sub"]) != (not B["sub"]):
                    feats.add(("ew+numbered", F["cell"], A["type"], not A["sub"]))
    feats.add(("len", F["cell"], len(ints)))
    feats.add(("ntypes", F["cell"], len({i["type"] for i in ints})))
    return feats


def select_covering(forms: list[dict], limit: int, rng: random.Random) -> list[dict]:
    """Greedy cover of _shape_features, then fill up to `limit` at random (all from rng)."""
    pool = list(forms)
    rng.shuffle(pool)
    feats = [(_shape_features(F), F) for F in pool]
    chosen, covered = [], set()
    remaining = feats
    while remaining and len(chosen) < limit:
        best = max(remaining, key=lambda x: len(x[0] - covered))
        if not best[0] - covered:
            break
        chosen.append(best[1])
        covered |= best[0]
        remaining = [x for x in remaining if x is not best]
    rest = [x[1] for x in remaining]
    chosen += rest[: max(0, limit - len(chosen))]
    return chosen


def dress(shapes: list[dict], dressings: list[dict], rng: random.Random) -> list[dict]:
    """Pair each integral list with a dressing (rank, coefficients, constants layout); every dressing is
    used about equally often, the pairing is a seed-chosen shuffle."""
    out = []
    order: list[dict] = []
    for F in shapes:
        if not order:
            order = list(dressings)
            rng.shuffle(order)
        D = order.pop()
        out.append({"cell": F["cell"], "rank": D["rank"], "cpat": D["cpat"], "coefs": list(D["coefs"]),
                    "integrals": F["integrals"]})
    return out


PRIMES = [1543, 1549, 1553, 1559, 1567, 1571, 1579, 1583, 1597, 1601, 1607, 1609, 1613, 1619, 1621, 1627,
          1637, 1657, 1663, 1667, 1669, 1693, 1697, 1699]


def make_modules(forms: list[dict], per_module: int = 15) -> list[list[dict]]:
    """Group forms into JIT modules; slot s of a module gets the literal factor PRIMES[s] so that a kernel
    borrowed from another form of the same module cannot decode to a label multiset."""
    mods = []
    for a in range(0, len(forms), per_module):
        mods.append([{"id": a + s, "form": F, "scale": PRIMES[s % len(PRIMES)]}
                     for s, F in enumerate(forms[a:a + per_module])])
    return mods


def run_workers(kind: str, jobs: list, name: str, extra: dict | None = None, nworkers: int | None = None,
                timeout: int = 3000) -> list:
    """Run `python -m harness.s3 <kind>` children over `jobs` (round-robin split); returns all results."""
    nw = max(1, min(nworkers or NWORKERS, len(jobs)))
    sc = common.scratch(name)
    parts = [jobs[i::nw] for i in range(nw)]

    def one(i):
        jf, of = sc / f"job{i}.json", sc / f"out{i}.json"
        cache = sc / f"cache{i}"
        cache.mkdir(exist_ok=True)
        cfgdir = sc / "xdg-empty"
        cfgdir.mkdir(exist_ok=True)
        jf.write_text(json.dumps({"jobs": parts[i], "cache_dir": str(cache), **(extra or {})}))
        env = common.child_env({"XDG_CONFIG_HOME": str(cfgdir)})
        p = subprocess.run([common.PY, "-m", "harness.s3", kind, str(jf), str(of)], cwd=str(cache), env=env,
                           capture_output=True, text=True, timeout=timeout)
        if p.returncode != 0 or not of.exists():
            raise MachineryError(f"{kind} child {i} failed (rc={p.returncode}):\n{p.stderr[-3000:]}")
        return json.loads(of.read_text())

    with ThreadPoolExecutor(nw) as ex:
        res = list(ex.map(one, range(nw)))
    return [x for part in res for x in part]


def desc_judge(cases: list[dict]):
    """cases: [{id, form, obs}] -> {id: [(field, expected, observed)...]} (empty list = conforms)."""
    d = tlc.stage("desc-judge", DESC_MODULES)
    cf = d / "cases.json"
    cf.write_text(json.dumps(cases))
    r = tlc.run(d, "DescriptorJudge", cfg_text=_tlc_cfg("JSpec", {"MaxLen": 3, "What": "shapes"}, ["Judge"]),
                workers=1, env={"CASE_FILE": str(cf)}, timeout=1500)
    tlc.must_ok(r, "DescriptorJudge")
    if r.violated:
        raise MachineryError("DescriptorJudge stopped: " + str(r.violated) + "\n" + r.out[-2000:])
    verdict: dict = {}
    for v in printed_values(r.out, ("OK", "VIOL")):
        if v[0] == "OK":
            verdict.setdefault(v[1], [])
        else:
            verdict.setdefault(v[1], []).append((v[2], v[3], v[4]))
    missing = [c["id"] for c in cases if c["id"] not in verdict]
    if missing:
        raise MachineryError(f"DescriptorJudge gave no verdict for cases {missing[:10]}:\n{r.out[-1500:]}")
    return verdict, r


def c06_collect(chk, forms: list[dict], name: str):
    """Realise + compile + observe (children), judge (TLC); report violations."""
    mods = make_modules(forms)
    t0 = time.time()
    results = run_workers("c06worker", mods, name)
    t1 = time.time()
    byid = {r["id"]: r for r in results}
    cases, failed = [], []
    for m in mods:
        for it in m:
            r = byid.get(it["id"])
            if r is None:
                raise MachineryError(f"no result for form {it['id']}")
            if "obs" in r:
                cases.append({"id": it["id"], "form": it["form"], "obs": r["obs"]})
            else:
                failed.append((it, r))
    verdict, jr = desc_judge(cases) if cases else ({}, None)
    if jr is not None:
        chk.add(states=jr.distinct, transitions=jr.generated)
    chk.add(traces_validated_against_impl=len(cases), evaluations=sum(len(c["obs"]["ids"]) for c in cases))
    chk.note(f"{len(forms)} abstract forms in {len(mods)} JIT modules: compile+call {t1 - t0:.1f}s, "
             f"TLC judge {jr.wall_s if jr else 0:.1f}s")
    # one violation per (field, cell, set of integral types): the simplest failing form is the reproducer
    groups: dict = {}
    for c in cases:
        mm = verdict[c["id"]]
        if mm:
            F = c["form"]
            present = [TYPE_ABBR[t] for t in ITYPES if any(i["type"] == t for i in F["integrals"])]
            groups.setdefault(f"C06:{mm[0][0]}:{F['cell']}:types={'+'.join(present)}", []).append((c, mm))
    for key, lst in groups.items():
        lst.sort(key=lambda x: (len(x[0]["form"]["integrals"]), len(form_key(x[0]["form"])), form_key(x[0]["form"])))
        c, mm = lst[0]
        fk = form_key(c["form"])
        chk.violation(key,
                      f"ufcx_form of {fk}: {mm[0][0]} expected {mm[0][1]} observed {mm[0][2]}"
                      + (f" (+{len(mm) - 1} more fields)" if len(mm) > 1 else "")
                      + (f"; {len(lst) - 1} more failing form(s) of this class" if len(lst) > 1 else ""),
                      {"form": c["form"], "obs": c["obs"], "mismatches": mm,
                       "other_failing_forms": [form_key(x[0]["form"]) for x in lst[1:41]]})
    for it, r in failed:
        fk = form_key(it["form"])
        chk.violation(f"C06:no-descriptor:{fk}", f"form {fk} of the domain did not compile/load: {r.get('error')}",
                      {"form": it["form"], "error": r.get("error")})
    return cases, verdict


def c06_controls(chk, cases: list[dict], verdict: dict, rng: random.Random) -> int:
    """Cheap negative controls on recorded descriptors: corrupt one field -> TLC must reject."""
    good = [c for c in cases if not verdict[c["id"]] and len(c["obs"]["ids"]) >= 2]
    rng.shuffle(good)
    mutants = []
    for c in good[:12]:
        o = c["obs"]
        n = len(o["ids"])
        muts = []
        o1 = json.loads(json.dumps(o)); o1["ids"][0], o1["ids"][-1] = o1["ids"][-1] + 1, o1["ids"][0]
        muts.append(("ids", o1))
        o2 = json.loads(json.dumps(o)); o2["labels"][rng.randrange(n)][0] += 1
        muts.append(("labels", o2))
        o3 = json.loads(json.dumps(o))
        t = max(k for k in range(1, 6) if o3["offsets"][k] > o3["offsets"][k - 1])
        for k in range(t, 6):
            o3["offsets"][k] -= 1
        for fld in ("ids", "tags", "ceh", "exact", "labels"):
            o3[fld] = o3[fld][:-1]
        muts.append(("offsets", o3))
        o4 = json.loads(json.dumps(o)); o4["rank"] = 1 - o4["rank"]
        muts.append(("rank", o4))
        o5 = json.loads(json.dumps(o)); o5["num_constants"] += 1
        muts.append(("num_constants", o5))
        for nm, om in muts:
            mutants.append({"id": len(mutants), "form": c["form"], "obs": om, "mut": nm})
    if not mutants:
        return 0
    v, _ = desc_judge([{k: m[k] for k in ("id", "form", "obs")} for m in mutants])
    accepted = [m for m in mutants if not v[m["id"]]]
    if accepted:
        raise MachineryError("negative control: TLC accepted corrupted descriptors: "
                             + "; ".join(f"{m['mut']} of {form_key(m['form'])}" for m in accepted[:5]))
    return len(mutants)


def c06_run(chk):
    common.ensure_repo_on_path()
    rng = random.Random(chk.seed)
    quick = chk.tier == "quick"
    desc_model_check(chk, 2 if quick else 3)
    dressings, _ = desc_emit("dressings", 1)
    if quick:
        shapes, r = desc_emit("shapes", 3, simulate="num=1500", depth=6, seed=chk.seed + 1)
        shapes = select_covering(shapes, 330, rng)
        how = f"TLC -simulate (seed {chk.seed + 1}) over Descriptor!ESpec MaxLen=3, greedy cover of (cell,type,id-shape), " \
              "ordered type pairs, overlaps, rules, descending ids; then random fill"
    else:
        shapes, r = desc_emit("shapes", 2)
        n2 = len(shapes)
        more, r3 = desc_emit("shapes", 3, simulate="num=20000", depth=6, seed=chk.seed + 1)
        have = {form_key(F) for F in shapes}
        more = [F for F in more if form_key(F) not in have and len(F["integrals"]) == 3]
        rng.shuffle(more)
        shapes = shapes + select_covering(more, 8000, rng)
        how = f"all {n2} abstract forms with <=2 integrals (exhaustive BFS of Descriptor!ESpec MaxLen=2) + " \
              f"{len(shapes) - n2} seed-chosen forms with 3 integrals (TLC -simulate seed {chk.seed + 1})"
    forms = dress(shapes, dressings, rng)
    # the binding is only as good as its reach: every dressing at least once
    chk.note(f"{len(forms)} abstract forms ({len(dressings)} dressings): {how}")
    cases, verdict = c06_collect(chk, forms, "c06")
    nctl = c06_controls(chk, cases, verdict, rng)
    nontrivial = sum(1 for F in forms if len(F["integrals"]) >= 2 or len(F["integrals"][0]["sub"]) > 1)
    chk.add(distinct_nontrivial=nontrivial, controls_rejected=nctl,
            rule="one case = one abstract form (cell, rank, integral list with type/subdomain/rule, coefficient list, "
                 "constants layout) emitted by TLC from Descriptor!ESpec, realised as a UFL form, JIT-compiled, every "
                 "listed kernel called; non-trivial = >=2 declared integrals or a tuple subdomain. " + how,
            samples=[form_key(F) for F in forms[:8]])
    chk.assumptions += [
        "label multiset decoded from sum(A)/(measure*literal factor) with constants 8^(k-1): exact for <=3 labels",
        "basix hashes of P1/P2 and of the affine coordinate element identify the element (trusted: basix)",
        "interior-facet integrals on prisms are outside the domain (FFCx rejects them before code generation)",
    ]


def c06_replay(chk, path):
    common.ensure_repo_on_path()
    doc = json.loads(Path(path).read_text())
    F = _norm_form(doc["payload"]["form"])
    c06_collect(chk, [F], "c06-replay")


# ---------------------------------------------------------------------------
# C06 worker: runs in a child process


def make_consts(cpat: str, n: int) -> list[dict]:
    """Realisation of Descriptor!Consts (kept in step with the spec; a disagreement shows up as a
    constant_ranks/constant_shapes mismatch on every form, i.e. in development, not as a silent pass)."""
    lab = [{"shape": [], "label": k} for k in range(1, n + 1)]
    ex = lambda sh: {"shape": sh, "label": 0}  # noqa: E731
    if cpat == "plain":
        return lab
    if cpat == "vecfirst":
        return [ex([2])] + lab
    if cpat == "matmid":
        return lab[:1] + [ex([2, 3])] + lab[1:]
    if cpat == "both":
        return [ex([2])] + lab[:1] + [ex([2, 3])] + lab[1:] + [ex([3])]
    raise ValueError(cpat)


REFCELL = {
    "triangle": [[0, 0, 0], [1, 0, 0], [0, 1, 0]],
    "prism": [[0, 0, 0], [1, 0, 0], [0, 1, 0], [0, 0, 1], [1, 0, 1], [0, 1, 1]],
}
# (cell, integral type, entity cell type) -> (local entity index, measure of that entity of the reference cell)
ENTITY = {
    ("triangle", "cell", "triangle"): (0, 0.5),
    ("triangle", "exterior_facet", "interval"): (1, 1.0),     # edge x = 0
    ("triangle", "interior_facet", "interval"): (1, 1.0),
    ("triangle", "vertex", "point"): (0, 1.0),
    ("prism", "cell", "prism"): (0, 0.5),
    ("prism", "exterior_facet", "triangle"): (0, 0.5),         # bottom face
    ("prism", "exterior_facet", "quadrilateral"): (1, 1.0),    # face y = 0
    ("prism", "vertex", "point"): (0, 1.0),
}
ITYPES = ["cell", "exterior_facet", "interior_facet", "vertex", "ridge"]
RULE_DEGREE = {"default": None, "deg1": 1, "deg3": 3}


class _Ctx:
    """Per-cell UFL objects shared by the forms of one module."""

    def __init__(self, cell):
        import basix.ufl
        import ufl
        gdim = {"triangle": 2, "prism": 3}[cell]
        self.cell = cell
        self.mesh = ufl.Mesh(basix.ufl.element("Lagrange", cell, 1, shape=(gdim,)))
        self.P1 = ufl.FunctionSpace(self.mesh, basix.ufl.element("Lagrange", cell, 1))
        self.P2 = ufl.FunctionSpace(self.mesh, basix.ufl.element("Lagrange", cell, 2))
        self.measure = {"cell": ufl.Measure("dx", domain=self.mesh),
                        "exterior_facet": ufl.Measure("ds", domain=self.mesh),
                        "interior_facet": ufl.Measure("dS", domain=self.mesh),
                        "vertex": ufl.Measure("dP", domain=self.mesh)}
        self.elem_tag = {self.P1.ufl_element().basix_hash(): "P1", self.P2.ufl_element().basix_hash(): "P2"}
        self.coord_tag = {self.mesh.ufl_coordinate_element().basix_hash(): "P1"}


def build_form(ctx: _Ctx, F: dict, scale: int):
    """Abstract form -> UFL form.  Label k = scalar Constant multiplying scale * (test function | 1)."""
    import ufl
    n = len(F["integrals"])
    coefs = [ufl.Coefficient(ctx.P2 if k == "P2" else ctx.P1) for k in F["coefs"]]
    dropped = [c for c, k in zip(coefs, F["coefs"]) if k == "dropped"]
    used = [c for c, k in zip(coefs, F["coefs"]) if k != "dropped"]
    consts = [ufl.Constant(ctx.mesh, shape=tuple(c["shape"])) for c in make_consts(F["cpat"], n)]
    lab = {c["label"]: o for c, o in zip(make_consts(F["cpat"], n), consts) if c["label"]}
    extras = [o for c, o in zip(make_consts(F["cpat"], n), consts) if not c["label"]]
    v = ufl.TestFunction(ctx.P1) if F["rank"] == 1 else None
    form = None
    for k, I in enumerate(F["integrals"], start=1):
        res = (lambda f: f("+")) if I["type"] == "interior_facet" else (lambda f: f)
        g = scale * lab[k]
        for f in used:
            g = g * res(f)
        if k == 1:
            for K in extras:
                g = g * K[(0,) * len(K.ufl_shape)]
        if dropped:
            g = g * res(dropped[0])
        elif v is not None:
            g = g * res(v)
        md = {} if RULE_DEGREE[I["rule"]] is None else {"degree": RULE_DEGREE[I["rule"]]}
        sub = I["sub"]
        # UFL accepts any numbers.Integral as a subdomain id: users pass mesh-tag values, i.e. NumPy integers
        import numpy as _np
        ity = (int, _np.int32, _np.int64)[(k + n + len(sub)) % 3]
        sd = None if not sub else (ity(sub[0]) if len(sub) == 1 else tuple(ity(x) for x in sub))
        m = ctx.measure[I["type"]]
        term = g * (m(sd, **md) if sd is not None else (m(**md) if md else m))
        form = term if form is None else form + term
    if dropped:
        # the form as written contains the coefficient; the integrals do not depend on it
        form = ufl.derivative(form, dropped[0], v)
    return form


def observe_form(ffi, cf, ctx: _Ctx, F: dict, scale: int) -> dict:
    """Projection of one compiled ufcx_form."""
    import basix
    import numpy as np
    n = len(F["integrals"])
    nco, nk = int(cf.num_coefficients), int(cf.num_constants)
    obs = {"rank": int(cf.rank), "num_coefficients": nco, "num_constants": nk}
    sane = 0 <= nco <= 16 and 0 <= nk <= 16 and 0 <= obs["rank"] <= 4
    ncr, nkr = (nco, nk) if sane else (0, 0)
    obs["original_coefficient_positions"] = [int(cf.original_coefficient_positions[i]) for i in range(ncr)]
    obs["coefficient_name_map"] = [ffi.string(cf.coefficient_name_map[i]).decode() for i in range(ncr)]
    obs["constant_ranks"] = [int(cf.constant_ranks[i]) for i in range(nkr)]
    obs["constant_shapes"] = [[int(cf.constant_shapes[i][j]) for j in range(min(4, max(0, obs["constant_ranks"][i])))]
                              for i in range(nkr)]
    obs["constant_name_map"] = [ffi.string(cf.constant_name_map[i]).decode() for i in range(nkr)]
    nel = (obs["rank"] + ncr) if sane else 0
    obs["elements"] = [ctx.elem_tag.get(int(cf.finite_element_hashes[i]), "unknown") for i in range(nel)]
    off = [int(cf.form_integral_offsets[i]) for i in range(6)]
    obs["offsets"] = off
    obs.update(ids=[], tags=[], ceh=[], exact=[], labels=[])
    if off[0] != 0 or any(off[i] > off[i + 1] for i in range(5)) or off[5] > 64:
        return obs
    # data for the kernel calls: w = 1 (Lagrange bases sum to one), extras = 1, label k = 8^(k-1)
    cvals = []
    for c in make_consts(F["cpat"], n):
        size = int(np.prod(c["shape"])) if c["shape"] else 1
        cvals += [8.0 ** (c["label"] - 1)] * size if c["label"] else [1.0] * size
    cvals = np.array(cvals + [0.0] * 8, dtype=np.float64)
    w = np.ones(256, dtype=np.float64)
    x = np.array(REFCELL[ctx.cell] * 2, dtype=np.float64).ravel()
    perm = np.zeros(2, dtype=np.uint8)
    for j in range(off[5]):
        t = max(k for k in range(5) if off[k] <= j)
        itg = cf.form_integrals[j]
        obs["ids"].append(int(cf.form_integral_ids[j]))
        try:
            tag = basix.CellType(int(itg.domain)).name
        except ValueError:
            tag = f"unknown{int(itg.domain)}"
        obs["tags"].append(tag)
        obs["ceh"].append(ctx.coord_tag.get(int(itg.coordinate_element_hash), "unknown"))
        ent = ENTITY.get((ctx.cell, ITYPES[t], tag))
        kern = itg.tabulate_tensor_float64
        if ent is None or kern == ffi.NULL or not sane:
            obs["exact"].append(False)
            obs["labels"].append([0] * n)
            continue
        A = np.zeros(64, dtype=np.float64)
        e = np.array([ent[0], ent[0]], dtype=np.int32)
        kern(ffi.cast("double *", A.ctypes.data), ffi.cast("double *", w.ctypes.data),
             ffi.cast("double *", cvals.ctypes.data), ffi.cast("double *", x.ctypes.data),
             ffi.cast("int *", e.ctypes.data), ffi.cast("uint8_t *", perm.ctypes.data), ffi.NULL)
        X = float(A.sum()) / (ent[1] * scale)
        r = round(X) if X == X and abs(X) < 1e15 else -1
        # error bound: <= 64 additions/multiplications of positive terms, each exact up to eps: |X - r| << 1e-9 r
        exact = 0 <= r < 8 ** n and abs(X - r) <= 1e-9 * max(1.0, abs(r))
        obs["exact"].append(bool(exact))
        obs["labels"].append([(r // 8 ** k) % 8 for k in range(n)] if exact else [0] * n)
    return obs


def c06_worker(job: dict) -> list:
    import ffcx.codegeneration.jit as jit
    out = []
    ctxs: dict = {}

    def compile_items(items):
        forms = []
        for it in items:
            cell = it["form"]["cell"]
            if cell not in ctxs:
                ctxs[cell] = _Ctx(cell)
            forms.append(build_form(ctxs[cell], it["form"], it["scale"]))
        cfs, module, _ = jit.compile_forms(forms, cffi_extra_compile_args=["-O0"], cache_dir=Path(job["cache_dir"]))
        return [{"id": it["id"], "obs": observe_form(module.ffi, cf, ctxs[it["form"]["cell"]], it["form"], it["scale"])}
                for it, cf in zip(items, cfs)]

    for items in job["jobs"]:
        try:
            out += compile_items(items)
        except Exception:  # isolate the form(s) that cannot be compiled
            for it in items:
                try:
                    out += compile_items([it])
                except Exception as e:  # noqa: BLE001
                    out.append({"id": it["id"], "error": f"{type(e).__name__}: {str(e)[:300]}"})
    return out


# ===========================================================================
# C20  Options.tla (option sources) and CliPair.tla (header/source pair)
# ===========================================================================

OPT_ORDER = ["scalar_type", "sum_factorization", "table_rtol", "table_atol", "epsilon", "verbosity", "part", "language"]
OPT_THEOREMS = ["TypeOK", "NothingSetGivesDefault", "CliWins", "PwdBeatsUser"]

# tensor-product P2 mass form on a quadrilateral: every modelled option has a visible effect on it
TINY_UFL = """\
import basix
import basix.ufl
from ufl import Constant, FunctionSpace, Mesh, TestFunction, TrialFunction, dx, inner

ct = basix.CellType.quadrilateral


def tp(degree, shape=None):
    e = basix.ufl.wrap_element(
        basix.create_tp_element(basix.ElementFamily.P, ct, degree, basix.LagrangeVariant.gll_warped))
    return e if shape is None else basix.ufl.blocked_element(e, shape=shape)


mesh = Mesh(tp(1, (2,)))
V = FunctionSpace(mesh, tp(2))
u = TrialFunction(V)
v = TestFunction(V)
k = Constant(mesh)
a = k * inner(u, v) * dx
"""


def opt_model_check(chk, maxset: int):
    d = tlc.stage("opt-mc", ["Options"])
    cfg = _tlc_cfg("OSpec", {"MaxSet": maxset}, OPT_THEOREMS) + "PROPERTY StepLocal\n"
    r = tlc.run(d, "Options", cfg_text=cfg, workers=min(8, common.NCPU), timeout=1500)
    tlc.must_ok(r, "Options.tla theorems")
    if r.violated:
        raise MachineryError(f"Options.tla: theorem {r.violated} fails - the specification is wrong")
    chk.add(states=r.distinct, transitions=r.generated)
    chk.note(f"Options.tla: {r.distinct} configurations with <= {maxset} (option, source) pairs set; "
             f"{', '.join(OPT_THEOREMS)}, StepLocal hold ({r.wall_s:.1f}s)")


def opt_assignments() -> dict:
    d = tlc.stage("opt-emit", ["Options"])
    r = tlc.run(d, "Options", cfg_text=_tlc_cfg("OSpec", {"MaxSet": 0}, ["EmitAssignments"]), workers=1, timeout=300)
    tlc.must_ok(r, "Options.tla emit")
    out: dict = {o: [] for o in OPT_ORDER}
    for v in printed_values(r.out, ("ASSIGN",)):
        out[v[1]].append({k: v[2][k] for k in ("cli", "pwd", "user")})
    if any(not out[o] for o in OPT_ORDER):
        raise MachineryError("Options.tla emitted no assignments:\n" + r.out[-1500:])
    return out


def opt_configs(assign: dict, n: int, rng: random.Random) -> list[dict]:
    """n configurations; each option cycles through a seed-shuffled list of *all* its TLC-emitted
    assignments, so every (option, assignment) occurs floor(n/27) times or more, in varying company."""
    cols = {}
    for o in OPT_ORDER:
        col: list = []
        while len(col) < n:
            a = list(assign[o])
            rng.shuffle(a)
            col += a
        cols[o] = col[:n]
    return [{o: cols[o][i] for o in OPT_ORDER} for i in range(n)]


NUMERIC = {"table_rtol": float, "table_atol": float, "epsilon": float, "verbosity": int}
# tokens Options.tla uses for numeric values (defaults included)
NUM_TOKENS = {"table_rtol": ["0", "0.001", "1e-06"], "table_atol": ["0", "0.3", "1e-09"],
              "epsilon": ["0", "1e-07", "1e-14"], "verbosity": ["0", "40", "30"]}


def _json_value(o: str, v: str):
    if o == "sum_factorization":
        return v == "true"
    if o in NUMERIC:
        return NUMERIC[o](v)
    return v


def _token(o: str, v) -> str:
    if o == "sum_factorization":
        return {True: "true", False: "false"}.get(v, repr(v)) if isinstance(v, bool) else repr(v)
    if o in NUMERIC:
        if isinstance(v, (int, float)) and not isinstance(v, bool):
            for t in NUM_TOKENS[o]:
                if float(t) == float(v):
                    return t
        return repr(v)
    return v if isinstance(v, str) else repr(v)


# first entry of the P2 (GLL) tensor-product mass matrix on the unit square: (2/15)^2, times k = 1
TINY_A00 = 4.0 / 225.0


_NUMBA_CALL = r"""
import ctypes, re, sys
import numpy as np
src = open(sys.argv[1]).read()
ns = {}
exec(compile(src, sys.argv[1], "exec"), ns)
name = re.search(r"^def (tabulate_tensor_integral_\w+)\(", src, re.M).group(1)
dt = {"float32": np.float32, "float64": np.float64}[sys.argv[2]]
ct = ctypes.c_float if dt == np.float32 else ctypes.c_double
A = np.zeros(128, dtype=dt); c = np.ones(4, dtype=dt); w = np.zeros(4, dtype=dt)
x = np.array([[0, 0, 0], [1, 0, 0], [0, 1, 0], [1, 1, 0]], dtype=dt).ravel()
e = np.zeros(4, dtype=np.int32); q = np.zeros(4, dtype=np.uint8)
P = lambda a, t: a.ctypes.data_as(ctypes.POINTER(t))
ns[name](P(A, ct), P(w, ct), P(c, ct), P(x, ct), P(e, ctypes.c_int), P(q, ctypes.c_uint8), None)
print("A0", repr(float(A[0])))
"""


def tensor_witness_numba(cwd: Path, styp: str) -> str:
    """The numba output executed as plain Python (numba.carray works on ctypes pointers uncompiled)."""
    if styp not in ("float32", "float64"):
        return "n/a"
    p = subprocess.run([common.PY, "-c", _NUMBA_CALL, "tiny_numba.py", styp], cwd=str(cwd), env=common.child_env(),
                       capture_output=True, text=True, timeout=600)
    m = re.search(r"^A0 (\S+)$", p.stdout, re.M)
    if p.returncode != 0 or not m:
        return "does not run"
    return "exact" if abs(float(m.group(1)) / TINY_A00 - 1.0) <= 1e-3 else "clamped"


def tensor_witness(cwd: Path, src: str, styp: str) -> str:
    """Compile tiny.c stand-alone, call the one kernel on the reference square: "exact" if A[0] is the mass
    matrix entry (to 1e-3, which covers float32 and table_rtol = 1e-3), "clamped" otherwise (table_atol = 0.3
    moves it by 30 %).  A[0] is the (0,0) entry for part = full and for part = diagonal alike."""
    import ctypes

    import numpy as np
    m = re.search(r"void (tabulate_tensor_integral_\w+)\(", src)
    dt = {"float32": np.float32, "float64": np.float64}.get(styp)
    if not m or dt is None:
        return "n/a"
    so = cwd / "libtiny.so"
    cc = subprocess.run(["gcc", "-std=c17", "-fPIC", "-O0", "-shared", f"-I{common.REPO / 'ffcx' / 'codegeneration'}",
                         "tiny.c", "-o", str(so), "-lm"], cwd=str(cwd), capture_output=True, text=True)
    if cc.returncode != 0:
        return "does not compile"
    f = ctypes.CDLL(str(so))[m.group(1)]
    f.restype = None
    A = np.zeros(128, dtype=dt)
    c = np.ones(4, dtype=dt)
    x = np.array([[0, 0, 0], [1, 0, 0], [0, 1, 0], [1, 1, 0]], dtype=dt).ravel()
    vp = ctypes.c_void_p
    f(A.ctypes.data_as(vp), None, c.ctypes.data_as(vp), x.ctypes.data_as(vp), None, None, None)
    return "exact" if abs(float(A[0]) / TINY_A00 - 1.0) <= 1e-3 else "clamped"


def parse_banner(text: str) -> dict | None:
    import ast
    lines = text.splitlines()
    try:
        i = next(k for k, ln in enumerate(lines) if "generated with the following options" in ln)
    except StopIteration:
        return None
    body = []
    for ln in lines[i + 2:]:
        m = re.match(r"^(//|#)  (.*)$", ln)
        if not m:
            break
        body.append(m.group(2))
    try:
        d = ast.literal_eval("\n".join(body))
    except Exception:  # noqa: BLE001
        return None
    return d if isinstance(d, dict) else None


def run_option_case(case: dict, root: Path) -> dict:
    d = root / f"case{case['id']}"
    cwd, xdg = d / "cwd", d / "xdg"
    (xdg / "ffcx").mkdir(parents=True)
    cwd.mkdir(parents=True)
    (cwd / "tiny.py").write_text(TINY_UFL)
    cfg = case["cfg"]
    for src, path in (("user", xdg / "ffcx" / "ffcx_options.json"), ("pwd", cwd / "ffcx_options.json")):
        vals = {o: _json_value(o, cfg[o][src]) for o in OPT_ORDER if cfg[o][src] != "unset"}
        if vals:
            path.write_text(json.dumps(vals))
    args = []
    for o in OPT_ORDER:
        v = cfg[o]["cli"]
        if v != "unset":
            args += [f"--{o}"] if o == "sum_factorization" else [f"--{o}", v]
    env = common.child_env({"XDG_CONFIG_HOME": str(xdg), "HOME": str(d)})
    p = subprocess.run([common.PY, "-m", "ffcx", *args, "tiny.py"], cwd=str(cwd), env=env, capture_output=True,
                       text=True, timeout=600)
    files = sorted(f for f in os.listdir(cwd) if f not in ("tiny.py", "ffcx_options.json"))
    obs = {"generated": False, "files": files, "rc": p.returncode, "stderr": p.stderr[-600:], "argv": args,
           "banner": {o: "?" for o in OPT_ORDER}, "behaviour": {o: "n/a" for o in OPT_ORDER}}
    if p.returncode != 0:
        return obs
    if files == ["tiny_numba.py"]:
        lang, src = "numba", (cwd / "tiny_numba.py").read_text()
        btxt = src
        m = re.search(r"weights_\w+ = np\.array\(.*?dtype=np\.(\w+)\)", src)
        styp = m.group(1) if m else "?"
        m = re.search(r"^\s+rank = (\d+)\s*$", src, re.M)
    elif files == ["tiny.c", "tiny.h"]:
        lang, src, btxt = "C", (cwd / "tiny.c").read_text(), (cwd / "tiny.h").read_text()
        m = re.search(r"void tabulate_tensor_integral_\w+\(\s*(\w+)\s*\*\s*restrict A", src)
        styp = {"float": "float32", "double": "float64"}.get(m.group(1), m.group(1)) if m else "?"
        m = re.search(r"\.rank = (\d+)", src)
    else:
        return obs
    obs["generated"] = True
    obs["behaviour"].update(language=lang, scalar_type=styp,
                            sum_factorization="true" if re.search(r"\biq0\b", src) else "false",
                            part={"1": "diagonal", "2": "full"}.get(m.group(1), "?") if m else "?")
    if obs["behaviour"]["sum_factorization"] == "false":
        # (with tensor-factor tables the clamping of table_atol is not visible: no witness)
        obs["behaviour"]["table_atol"] = tensor_witness(cwd, src, styp) if lang == "C" else tensor_witness_numba(cwd, styp)
    b = parse_banner(btxt)
    if b is not None:
        obs["banner"] = {o: _token(o, b.get(o, "missing")) for o in OPT_ORDER}
    if lang == "C":  # the source carries the banner too
        b2 = parse_banner(src)
        if b2 is not None and b is not None and any(_token(o, b2.get(o)) != obs["banner"][o] for o in OPT_ORDER):
            obs["banner"] = {o: "header/source banners differ" for o in OPT_ORDER}
    return obs


def opt_judge(cases: list[dict]):
    d = tlc.stage("opt-judge", ["Options", "OptionsJudge"])
    cf = d / "cases.json"
    cf.write_text(json.dumps([{"id": c["id"], "cfg": c["cfg"],
                               "obs": {k: c["obs"][k] for k in ("generated", "banner", "behaviour")}} for c in cases]))
    r = tlc.run(d, "OptionsJudge", cfg_text=_tlc_cfg("JSpec", {"MaxSet": 0}, ["Judge"]), workers=1,
                env={"CASE_FILE": str(cf)}, timeout=900)
    tlc.must_ok(r, "OptionsJudge")
    if r.violated:
        raise MachineryError("OptionsJudge stopped: " + str(r.violated) + "\n" + r.out[-2000:])
    verdict: dict = {}
    for v in printed_values(r.out, ("OK", "VIOL")):
        if v[0] == "OK":
            verdict.setdefault(v[1], [])
        else:
            verdict.setdefault(v[1], []).append(tuple(v[2:6]))
    missing = [c["id"] for c in cases if c["id"] not in verdict]
    if missing:
        raise MachineryError(f"OptionsJudge gave no verdict for {missing[:10]}:\n{r.out[-1500:]}")
    return verdict, r


def c20_options(chk, rng: random.Random, n: int, configs: list[dict] | None = None, controls: bool = True):
    if configs is None:
        configs = opt_configs(opt_assignments(), n, rng)
    cases = [{"id": i, "cfg": c} for i, c in enumerate(configs)]
    root = common.scratch("c20-opt")
    t0 = time.time()
    with ThreadPoolExecutor(NWORKERS) as ex:
        for c, o in zip(cases, ex.map(lambda c: run_option_case(c, root), cases)):
            c["obs"] = o
    t1 = time.time()
    # negative controls ride in the same TLC run (one JVM start): corrupted copies of some cases, ids >= 10^6
    muts = _option_mutants(cases, rng) if controls else []
    verdict, r = opt_judge(cases + muts)
    bad = [m for m in muts if not verdict[m["base"]] and not verdict[m["id"]]]
    if bad:
        raise MachineryError("negative control: OptionsJudge accepted a corrupted observation")
    chk.add(controls_rejected=sum(1 for m in muts if not verdict[m["base"]]))
    chk.add(states=r.distinct, transitions=r.generated, traces_validated_against_impl=len(cases),
            evaluations=len(cases) * len(OPT_ORDER))
    chk.note(f"{len(cases)} option-source configurations run through `python -m ffcx` in {t1 - t0:.1f}s, "
             f"TLC judge {r.wall_s:.1f}s")
    for c in cases:
        per_opt: dict = {}
        for (o, witness, exp, got) in verdict[c["id"]]:
            per_opt.setdefault(o, []).append((witness, exp, got))
        for o, lst in per_opt.items():
            a = c["cfg"].get(o, {})
            proj = ",".join(f"{s}={a.get(s, '?')}" for s in ("cli", "pwd", "user")) if a else "-"
            chk.violation(f"C20:precedence:{o}:{proj}",
                          f"python -m ffcx {' '.join(c['obs']['argv'])} with option sources {o}: {proj}: Effective = "
                          f"{lst[0][1]} but " + ", ".join(f"{w} says {g}" for w, _, g in lst),
                          {"kind": "options", "cfg": c["cfg"], "obs": c["obs"]})
    return cases, verdict


def _option_mutants(cases, rng) -> list[dict]:
    """Corrupt one recorded value -> TLC must reject."""
    pool = [c for c in cases if c["obs"]["generated"]]
    rng.shuffle(pool)
    mut = []
    for c in pool[:10]:
        o = rng.choice(OPT_ORDER)
        c2 = json.loads(json.dumps(c))
        c2["obs"]["banner"][o] = "corrupted"
        mut.append(dict(c2, id=10 ** 6 + len(mut), base=c["id"]))
        c3 = json.loads(json.dumps(c))
        c3["obs"]["behaviour"]["language"] = "numba" if c3["obs"]["behaviour"]["language"] == "C" else "C"
        mut.append(dict(c3, id=10 ** 6 + len(mut), base=c["id"]))
    return mut


# ---------------------------------------------------------------------------
# header/source pair

GENERATED_UFL = {
    "several forms-v2.0.py": """\
import basix.ufl
import numpy as np
from ufl import (Coefficient, Constant, FunctionSpace, Mesh, TestFunction, TrialFunction, avg, dot, dP, dS, ds, dx,
                 grad, inner)

cell = "triangle"
mesh = Mesh(basix.ufl.element("Lagrange", cell, 1, shape=(2,)))
V = FunctionSpace(mesh, basix.ufl.element("Lagrange", cell, 2))
Q = FunctionSpace(mesh, basix.ufl.element("Lagrange", cell, 1))
u, v = TrialFunction(V), TestFunction(V)
f = Coefficient(Q)
g = Coefficient(V)
kappa = Constant(mesh)
K = Constant(mesh, shape=(2, 2))
a = kappa * inner(grad(u), grad(v)) * dx + g * inner(u, v) * ds(1)
L = inner(f, v) * dx(2) + inner(f, v) * dx((1, 3)) + inner(dot(K, grad(g)), grad(v)) * dx
M = f * g * dx + avg(f) * dS + f * dP
mass = inner(u, v) * dx
stiff = inner(dot(K, grad(u)), grad(v)) * dx(degree=1)
forms = [a, L, M, mass, stiff, f * dx(4)]
flux = dot(K, grad(g))
pts = np.array([[0.25, 0.25], [0.5, 0.0], [0.0, 1.0]])
expressions = [(flux, pts), (f * kappa, pts)]
""",
    "3d.prism-mesh.py": """\
import basix.ufl
from ufl import Coefficient, Constant, FunctionSpace, Mesh, TestFunction, TrialFunction, dP, ds, dx, inner

cell = "prism"
mesh = Mesh(basix.ufl.element("Lagrange", cell, 1, shape=(3,)))
element = basix.ufl.element("Lagrange", cell, 1)
V = FunctionSpace(mesh, element)
u, v = TrialFunction(V), TestFunction(V)
w = Coefficient(V)
c = Constant(mesh)
a = c * inner(u, v) * dx + inner(u, v) * ds
L = inner(w, v) * ds(1) + inner(c, v) * dx(2)
M = w * dP + w * dx
""",
    "expr_only.py": """\
import basix.ufl
import numpy as np
from ufl import Coefficient, Constant, FunctionSpace, Mesh, grad, sin

cell = "tetrahedron"
mesh = Mesh(basix.ufl.element("Lagrange", cell, 1, shape=(3,)))
V = FunctionSpace(mesh, basix.ufl.element("Lagrange", cell, 2))
T = Coefficient(V)
alpha = Constant(mesh)
heat_flux = -alpha * grad(T)
src = sin(T) * alpha
points = np.array([[0.1, 0.2, 0.3], [0.25, 0.25, 0.25]])
points2 = np.array([[0.5, 0.25, 0.125]])
expressions = [(heat_flux, points), (src, points), (T * T, points), (heat_flux, points2)]
""",
    "mass[p1]^2`q\\x.py": """\
import basix.ufl
from ufl import FunctionSpace, Mesh, TestFunction, TrialFunction, dx, inner

cell = "interval"
mesh = Mesh(basix.ufl.element("Lagrange", cell, 1, shape=(1,)))
V = FunctionSpace(mesh, basix.ufl.element("Lagrange", cell, 1))
u, v = TrialFunction(V), TestFunction(V)
a = inner(u, v) * dx
""",
    "café - 2nd.order.py": """\
import basix.ufl
from ufl import Coefficient, FunctionSpace, Mesh, TestFunction, TrialFunction, dx, grad, inner, jump, dS, avg

cell = "interval"
mesh = Mesh(basix.ufl.element("Lagrange", cell, 1, shape=(1,)))
V = FunctionSpace(mesh, basix.ufl.element("Discontinuous Lagrange", cell, 2))
u, v = TrialFunction(V), TestFunction(V)
f = Coefficient(V)
J = inner(grad(u), grad(v)) * dx + inner(jump(u), jump(v)) * dS
F = inner(f, v) * dx + inner(avg(f), avg(v)) * dS
""",
}


def pair_corpus(tier: str, rng: random.Random, invocations: list[dict]) -> list[dict]:
    demos = sorted(p for p in (common.REPO / "demo").glob("*.py")
                   if p.name != "test_demos.py" and not p.stem.endswith("_numba"))
    if not demos:
        raise MachineryError("no demo UFL files found")

    def stype(p, alt=False):
        if "Complex" in p.stem:
            return "complex64" if alt else "complex128"
        if alt:
            return rng.choice(["float32"] if p.stem in ("BiharmonicHHJ", "BiharmonicRegge", "StabilisedStokes")
                              else ["float32", "complex128"])
        return "float64"

    jobs = []
    gen = list(GENERATED_UFL)
    if tier == "quick":
        # (HyperElasticity alone costs as much as the rest of the quick tier: thorough only)
        pick = rng.sample([p for p in demos if p.stem != "HyperElasticity"], 2)
        jobs += [{"path": str(p), "scalar_type": stype(p)} for p in pick]
        jobs += [{"generated": g, "scalar_type": "float64"} for g in gen]
        # cheap repeats so that the quick tier runs every invocation variant at least once
        small = ["mass[p1]^2`q\\x.py", "expr_only.py", "caf\u00e9 - 2nd.order.py", "3d.prism-mesh.py"]
        k = 0
        while len(jobs) < len(invocations):
            jobs.append({"generated": small[k % len(small)], "scalar_type": ["float32", "complex128"][(k // len(small)) % 2]})
            k += 1
    else:
        jobs += [{"path": str(p), "scalar_type": stype(p)} for p in demos]
        jobs += [{"path": str(p), "scalar_type": stype(p, True)} for p in demos]
        for g in gen:
            jobs += [{"generated": g, "scalar_type": t} for t in ("float64", "float32", "complex128")]
    # heavy files first so the pool drains evenly
    # every job gets one of the TLC-emitted invocation variants (CliPair!Invocations), seed-shuffled, cycling
    order: list = []
    for j in jobs:
        if not order:
            order = list(invocations)
            rng.shuffle(order)
        j["inv"] = order.pop()
    jobs.sort(key=lambda j: 0 if "HyperElasticity" in j.get("path", "") else 1)
    for i, j in enumerate(jobs):
        j["id"] = i
    return jobs


def pair_judge(cases: list[dict]):
    d = tlc.stage("pair-judge", ["CliPair", "CliPairJudge"])
    cf = d / "cases.json"
    cf.write_text(json.dumps(cases))
    r = tlc.run(d, "CliPairJudge", cfg_text="SPECIFICATION JSpec\nINVARIANT Judge\n", workers=1,
                env={"CASE_FILE": str(cf)}, timeout=900)
    tlc.must_ok(r, "CliPairJudge")
    if r.violated:
        raise MachineryError("CliPairJudge stopped: " + str(r.violated) + "\n" + r.out[-2000:])
    verdict: dict = {}
    for v in printed_values(r.out, ("OK", "VIOL")):
        if v[0] == "OK":
            verdict.setdefault(v[1], [])
        else:
            verdict.setdefault(v[1], []).append((v[2], v[3]))
    missing = [c["id"] for c in cases if c["id"] not in verdict]
    if missing:
        raise MachineryError(f"CliPairJudge gave no verdict for {missing[:10]}:\n{r.out[-1500:]}")
    return verdict, r


def pair_invocations() -> list[dict]:
    d = tlc.stage("pair-emit", ["CliPair", "CliPairEmit"])
    r = tlc.run(d, "CliPairEmit", cfg_text="", workers=1, timeout=300)
    inv = [{k: v[1][k] for k in ("o", "n", "mode", "d")} for v in printed_values(r.out, ("INV",))]
    if not inv:
        raise MachineryError("CliPair.tla emitted no invocation variants:\n" + r.out[-1500:])
    return inv


PAIR_FIELDS = ("id", "stem", "inv", "objects", "files", "generated", "compiles", "links", "cc_message", "declared",
               "defined", "symbols", "aliases")


def c20_pairs(chk, jobs: list[dict], name="c20-pair", rng=None):
    t0 = time.time()
    res = run_workers("pairworker", jobs, name, extra={"generated_ufl": GENERATED_UFL})
    t1 = time.time()
    byid = {r["id"]: r for r in res}
    cases = []
    for j in jobs:
        r = byid.get(j["id"])
        if r is None or "error" in r:
            raise MachineryError(f"pair worker failed on {j}: {r and r.get('error')}")
        cases.append(r)
    muts = _pair_mutants(cases, rng) if rng is not None else []
    verdict, tr = pair_judge([{k: c[k] for k in PAIR_FIELDS} for c in cases] + [{k: m[k] for k in PAIR_FIELDS} for m in muts])
    if any(not verdict[m["base"]] and not verdict[m["id"]] for m in muts):
        raise MachineryError("negative control: CliPairJudge accepted a corrupted case")
    chk.add(controls_rejected=sum(1 for m in muts if not verdict[m["base"]]))
    nker = sum(c["kernels_compared"] for c in cases)
    chk.add(states=tr.distinct, transitions=tr.generated, traces_validated_against_impl=len(cases), evaluations=nker)
    nz = [(c["label"], a["symbol"], a["ulps"]) for c in cases for a in c["aliases"] if a["ulps"] > 0]
    px = [c["label"] for c in cases if c.get("posix_math")]
    if px:
        chk.note(f"compiled with -D_DEFAULT_SOURCE because the file uses POSIX Bessel functions: {px}")
    chk.note(f"{len(cases)} UFL files through CLI + gcc -std=c17 -Wall -Werror + nm + dlopen + JIT: {t1 - t0:.1f}s; "
             f"{nker} kernel pairs compared ({sum(c['kernels_nonzero'] for c in cases)} with finite non-zero tensors), "
             f"{len(nz)} aliases with non-identical results"
             + (f" (max {max(x[2] for x in nz)} ulps)" if nz else ""))
    for c in cases:
        for rule, detail in verdict[c["id"]]:
            chk.violation(f"C20:pair:{rule}:{c['label']}", f"{c['label']}: clause {rule} fails: {detail[:300]}",
                          {"kind": "pair", "job": next(j for j in jobs if j["id"] == c["id"]), "case": c})
    return cases, verdict


def _pair_mutants(cases, rng) -> list[dict]:
    pool = [c for c in cases if c["aliases"]]
    rng.shuffle(pool)
    mut = []
    for c in pool[:4]:
        base = {k: c[k] for k in PAIR_FIELDS}
        m1 = json.loads(json.dumps(base)); m1["declared"].append({"type": "ufcx_form", "name": "form_not_defined"})
        m2 = json.loads(json.dumps(base)); m2["aliases"][0]["targets"] = [99]
        m3 = json.loads(json.dumps(base)); m3["aliases"][0]["ulps"] = 10 ** 6
        m4 = json.loads(json.dumps(base)); m4["aliases"] = m4["aliases"][1:]
        m5 = json.loads(json.dumps(base))
        if m5["inv"]["n"] and m5["inv"]["o"]:
            m5["inv"]["o"] = ""      # then the files should have been named after the stem
        else:
            m5["stem"] = m5["stem"] + ["-", "x"]
        m6 = json.loads(json.dumps(base)); m6["inv"]["n"] = "other_ns" if not m6["inv"]["n"] else ""
        for m in (m1, m2, m3, m4, m5, m6):
            m["id"] = 10 ** 6 + len(mut)
            m["base"] = c["id"]
            mut.append(m)
    return mut


def c20_run(chk):
    common.ensure_repo_on_path()
    rng = random.Random(chk.seed)
    quick = chk.tier == "quick"
    opt_model_check(chk, 2 if quick else 4)
    cases, verdict = c20_options(chk, rng, 30 if quick else 405)
    invs = pair_invocations()
    jobs = pair_corpus(chk.tier, rng, invs)
    pcases, pverdict = c20_pairs(chk, jobs, rng=rng)
    distinct = len({json.dumps(c["cfg"], sort_keys=True) for c in cases
                    if sum(1 for o in OPT_ORDER for s in ("cli", "pwd", "user") if c["cfg"][o][s] != "unset") >= 2})
    chk.add(distinct_nontrivial=distinct + len(pcases),
            rule="option cases: one per configuration (per option and source: unset or a value), each option cycling "
                 "through all its TLC-emitted assignments in seed-shuffled order, run as a fresh `python -m ffcx` with "
                 "scratch $XDG_CONFIG_HOME and cwd; non-trivial = >=2 (option, source) pairs set. pair cases: one per "
                 "(UFL file, scalar type, invocation variant of CliPair!Invocations: -o/-n/-d given or not, -i or "
                 "positional): repo demos and generated files (several named/unnamed forms, expressions, odd stems, prism).",
            samples=[" ".join(c["obs"]["argv"]) + " | pwd=" + json.dumps({o: c["cfg"][o]["pwd"] for o in OPT_ORDER
                                                                         if c["cfg"][o]["pwd"] != "unset"})
                     for c in cases[:4]] + [c["label"] for c in pcases[:4]])
    chk.assumptions += [
        "table_rtol, epsilon, verbosity have no behavioural witness on the probe form: judged from the banner only; "
        "table_atol: banner, and (unless sum factorization is in effect) the tensor of the compiled/executed kernel",
        "the banner of the generated file records the option values the compiler used (cross-checked behaviourally "
        "for scalar_type, sum_factorization, part, language)",
        "kernel comparison CLI vs JIT: same gcc, -O0 both; 'equal to rounding' = within CliPair!MaxUlps of the "
        "largest entry",
        "header declarations scanned with a regular expression (extern ufcx_* [*]name;), object-file symbols by nm",
    ]


def c20_replay(chk, path):
    common.ensure_repo_on_path()
    doc = json.loads(Path(path).read_text())
    pl = doc["payload"]
    if pl.get("kind") == "options":
        cfg = {o: pl["cfg"].get(o, {"cli": "unset", "pwd": "unset", "user": "unset"}) for o in OPT_ORDER}
        c20_options(chk, random.Random(0), 1, configs=[cfg], controls=False)
    else:
        job = dict(pl["job"], id=0)
        c20_pairs(chk, [job], "c20-replay")


# ---------------------------------------------------------------------------
# pair worker (child process)

_DECL_RE = re.compile(r"^\s*extern\s+(ufcx_\w+)\s*(\*?)\s*(\w+)\s*;", re.M)
_DEF_RE = re.compile(r"^(ufcx_\w+)\s*(\*?)\s*(\w+)\s*=", re.M)
C_TYPES = {"float32": "float", "float64": "double", "complex64": "float _Complex", "complex128": "double _Complex"}


def _real(t):
    return {"float32": "float32", "float64": "float64", "complex64": "float32", "complex128": "float64"}[t]


def _ulps(a, b, dtype) -> int:
    import numpy as np
    if a.shape != b.shape:
        return 10 ** 9
    nan_a, nan_b = np.isnan(a), np.isnan(b)
    if (nan_a != nan_b).any():
        return 10 ** 9
    ok = ~nan_a
    if not ok.any():
        return 0
    a, b = a[ok], b[ok]
    inf = np.isinf(a) | np.isinf(b)
    if inf.any() and not np.array_equal(a[inf], b[inf]):
        return 10 ** 9
    a, b = a[~inf], b[~inf]
    if a.size == 0:
        return 0
    diff = float(np.max(np.abs(a - b)))
    if diff == 0.0:
        return 0
    scale = float(max(np.max(np.abs(a)), np.max(np.abs(b))))
    eps = float(np.finfo(_real(dtype)).eps)
    return int(min(10 ** 9, -(-diff // (eps * scale))))


class _Inputs:
    """Fixed kernel inputs for one UFL object (identical for the CLI and the JIT kernel)."""

    def __init__(self, dtype, arg_dims, coef_dims, const_sizes, coord_points, extra_A=1):
        import numpy as np
        rs = np.random.RandomState(20240923)
        cplx = dtype.startswith("complex")
        n = 16
        for d in arg_dims:
            n *= 2 * d
        self.nA = n * extra_A
        nw, nc = 2 * sum(coef_dims) + 16, sum(const_sizes) + 16
        self.w = (rs.uniform(0.5, 1.5, nw) + (1j * rs.uniform(-0.5, 0.5, nw) if cplx else 0)).astype(dtype)
        self.c = (rs.uniform(0.5, 1.5, nc) + (1j * rs.uniform(-0.5, 0.5, nc) if cplx else 0)).astype(dtype)
        pts = np.zeros((coord_points.shape[0], 3))
        pts[:, :coord_points.shape[1]] = coord_points
        Mx = np.eye(3) + 0.1 * np.array([[0.3, 0.1, 0.0], [-0.2, 0.2, 0.1], [0.1, -0.1, 0.25]])
        x = pts @ Mx.T + np.array([0.5, -0.25, 0.125])
        self.x = np.concatenate([x.ravel(), x.ravel(), np.zeros(64)]).astype(_real(dtype))
        self.e = np.zeros(4, dtype=np.int32)
        self.perm = np.zeros(4, dtype=np.uint8)
        self.dtype = dtype

    def call(self, ffi, kernel):
        import numpy as np
        A = np.zeros(self.nA, dtype=self.dtype)
        ct, rt = C_TYPES[self.dtype], C_TYPES[_real(self.dtype)]
        kernel(ffi.cast(f"{ct} *", A.ctypes.data), ffi.cast(f"{ct} *", self.w.ctypes.data),
               ffi.cast(f"{ct} *", self.c.ctypes.data), ffi.cast(f"{rt} *", self.x.ctypes.data),
               ffi.cast("int *", self.e.ctypes.data), ffi.cast("uint8_t *", self.perm.ctypes.data), ffi.NULL)
        return A


def _coord_points(domain):
    import numpy as np
    ce = domain.ufl_coordinate_element()
    be = getattr(ce, "basix_element", None)
    if be is None:
        be = ce.sub_elements[0].basix_element
    return np.asarray(be.points)


def _form_desc(ffi, F, nk=None):
    """Descriptor fields that must agree between the CLI-built and the JIT-built ufcx_form."""
    nco, nc, rank = int(F.num_coefficients), int(F.num_constants), int(F.rank)
    off = [int(F.form_integral_offsets[i]) for i in range(6)]
    n = off[5]
    return {
        "rank": rank, "num_coefficients": nco, "num_constants": nc, "offsets": off,
        "ocp": [int(F.original_coefficient_positions[i]) for i in range(nco)],
        "constant_ranks": [int(F.constant_ranks[i]) for i in range(nc)],
        "constant_shapes": [[int(F.constant_shapes[i][j]) for j in range(int(F.constant_ranks[i]))] for i in range(nc)],
        "hashes": [int(F.finite_element_hashes[i]) for i in range(rank + nco)],
        "ids": [int(F.form_integral_ids[i]) for i in range(n)],
        "domains": [int(F.form_integrals[i].domain) for i in range(n)],
        "nfp": [bool(F.form_integrals[i].needs_facet_permutations) for i in range(n)],
        "ceh": [int(F.form_integrals[i].coordinate_element_hash) for i in range(n)],
        "enabled": [[bool(F.form_integrals[i].enabled_coefficients[j]) for j in range(nco)] for i in range(n)],
    }


def _expr_desc(ffi, E):
    npts, edim, ncomp = int(E.num_points), int(E.entity_dimension), int(E.num_components)
    return {
        "num_coefficients": int(E.num_coefficients), "num_constants": int(E.num_constants), "num_points": npts,
        "entity_dimension": edim, "num_components": ncomp, "rank": int(E.rank),
        "value_shape": [int(E.value_shape[i]) for i in range(ncomp)],
        "ocp": [int(E.original_coefficient_positions[i]) for i in range(int(E.num_coefficients))],
        "points": [float(E.points[i]) for i in range(npts * edim)],
        "ceh": int(E.coordinate_element_hash),
    }


def pair_case(job: dict, root: Path, generated_ufl: dict) -> dict:
    import shutil

    import cffi
    import numpy as np
    import ufl
    import ufl.algorithms
    import ffcx.codegeneration.jit as jit

    d = root / f"pair{job['id']}"
    d.mkdir(parents=True)
    if "generated" in job:
        fname = job["generated"]
        (d / fname).write_text(generated_ufl[fname])
    else:
        fname = Path(job["path"]).name
        shutil.copy(job["path"], d / fname)
    T = job["scalar_type"]
    stem = Path(fname).stem
    out = {"id": job["id"], "label": f"{fname}[{T}]", "stem": list(stem), "objects": [], "files": [],
           "generated": False, "compiles": False, "links": False, "cc_message": "", "declared": [], "defined": [],
           "symbols": [], "aliases": [], "kernels_compared": 0, "kernels_nonzero": 0}
    inv = job.get("inv") or {"o": "", "n": "", "mode": "pos", "d": ""}
    out["inv"] = inv
    out["label"] += "".join(f" -{k} {inv[k]}" for k in ("o", "n", "d") if inv[k]) + (" -i" if inv["mode"] == "i" else "")
    argv = ["--scalar_type", T]
    if inv["d"]:
        (d / inv["d"]).mkdir()
        argv += ["-d", inv["d"]]
    if inv["o"]:
        argv += ["-o", inv["o"]]
    if inv["n"]:
        argv += ["-n", inv["n"]]
    argv += ["-i", fname] if inv["mode"] == "i" else [fname]

    def listing():
        return {str(Path(r, f).relative_to(d)) for r, _, fs in os.walk(d) for f in fs}

    before = listing()
    p = subprocess.run([common.PY, "-m", "ffcx", *argv], cwd=str(d), capture_output=True, text=True)
    out["files"] = sorted(listing() - before)
    # the UFL objects, loaded the way the command line loads them (trusted: ufl.algorithms.load_ufl_file)
    ufd = ufl.algorithms.load_ufl_file(str(d / fname))
    forms, exprs = list(ufd.forms), list(ufd.expressions)
    names = ufd.object_names
    out["objects"] = [{"kind": "form", "name": names.get(id(f), "")} for f in forms] + \
                     [{"kind": "expression", "name": names.get(id(e[0]), "")} for e in exprs]
    # one UFL object listed twice (the same expression at two point sets): only the first occurrence can carry the
    # object's name, the later ones are unnamed (numbered by their position)
    seen = set()
    for ob in out["objects"]:
        if ob["name"] and (ob["kind"], ob["name"]) in seen:
            ob["name"] = ""
        seen.add((ob["kind"], ob["name"]))
    if p.returncode != 0:
        out["cc_message"] = p.stderr[-400:]
        return out
    out["generated"] = True
    hs = [f for f in out["files"] if f.endswith(".h")]
    cs = [f for f in out["files"] if f.endswith(".c")]
    if len(hs) != 1 or len(cs) != 1:
        return out
    htxt, ctxt = (d / hs[0]).read_text(), (d / cs[0]).read_text()
    out["declared"] = [{"type": m.group(1) + m.group(2), "name": m.group(3)} for m in _DECL_RE.finditer(htxt)]
    out["defined"] = [{"type": m.group(1) + m.group(2), "name": m.group(3)} for m in _DEF_RE.finditer(ctxt)]
    inc = str(common.REPO / "ffcx" / "codegeneration")
    obj = d / "pair.o"
    cc = subprocess.run(["gcc", "-std=c17", "-Wall", "-Werror", "-fPIC", "-O0", f"-I{inc}", "-c", cs[0], "-o", str(obj)],
                        cwd=str(d), capture_output=True, text=True)
    if cc.returncode != 0:
        # jn/yn (bessel_J/bessel_Y) are POSIX, not ISO C: -std=c17 hides them.  That strictness is this check's
        # choice, not the property's (the repo's demo test tolerates it too), so such a file is recompiled with
        # the POSIX names visible; any other diagnostic stays a failure.
        diags = [ln for ln in cc.stderr.splitlines() if "error:" in ln]
        if diags and all(re.search(r"implicit declaration of function .(jn|yn|j0|j1|y0|y1).", ln) for ln in diags):
            out["posix_math"] = True
            cc = subprocess.run(["gcc", "-std=c17", "-D_DEFAULT_SOURCE", "-Wall", "-Werror", "-fPIC", "-O0", f"-I{inc}",
                                 "-c", cs[0], "-o", str(obj)], cwd=str(d), capture_output=True, text=True)
    if cc.returncode != 0:
        out["cc_message"] = cc.stderr[:400]
        return out
    out["compiles"] = True
    nm = subprocess.run(["nm", "--defined-only", str(obj)], capture_output=True, text=True, check=True)
    for ln in nm.stdout.splitlines():
        parts = ln.split()
        if len(parts) >= 3:
            k = parts[-2]
            out["symbols"].append({"name": parts[-1], "external": k.isupper(), "kind": "function" if k in "Tt" else "object"})
    so = d / "libpair.so"
    ld = subprocess.run(["gcc", "-shared", str(obj), "-o", str(so), "-lm"], cwd=str(d), capture_output=True, text=True)
    if ld.returncode != 0:
        out["cc_message"] = ld.stderr[:400]
        return out
    ffi = cffi.FFI()
    aliases = [x for x in out["declared"] if x["type"] in ("ufcx_form*", "ufcx_expression*")]
    ffi.cdef(jit.UFC_HEADER_DECL.format(np.dtype(T).name) + jit.UFC_INTEGRAL_DECL + jit.UFC_FORM_DECL
             + jit.UFC_EXPRESSION_DECL
             + "".join(f"extern {x['type'][:-1]} *{x['name']};\n" for x in aliases))
    try:
        lib = ffi.dlopen(str(so))
    except OSError as e:
        out["cc_message"] = str(e)[:400]
        return out
    out["links"] = True
    # the JIT path on the same objects
    cache = d / "jit"
    jforms, jexprs, jmodf, jmode = [], [], None, None
    if forms:
        jforms, jmodf, _ = jit.compile_forms(list(forms), options={"scalar_type": T}, cffi_extra_compile_args=["-O0"],
                                             cache_dir=cache)
    if exprs:
        jexprs, jmode, _ = jit.compile_expressions([(e[0], e[1]) for e in exprs], options={"scalar_type": T},
                                                   cffi_extra_compile_args=["-O0"], cache_dir=cache)
    sigs = [f.signature() for f in forms]
    tt = f"tabulate_tensor_{np.dtype(T).name}"

    def form_inputs(f):
        args = sorted(f.arguments(), key=lambda a: (a.number(), a.part() or 0))
        dom = f.integrals()[0].ufl_domain()
        return _Inputs(T, [a.ufl_function_space().ufl_element().dim for a in args],
                       [c.ufl_element().dim for c in f.coefficients()],
                       [int(np.prod(c.ufl_shape)) if c.ufl_shape else 1 for c in f.constants()], _coord_points(dom))

    for x in aliases:
        sym = x["name"]
        rec = {"symbol": sym, "kind": "form" if x["type"] == "ufcx_form*" else "expression", "targets": [],
               "same_descriptor": False, "ulps": 0, "coefficient_names": [], "constant_names": []}
        out["aliases"].append(rec)
        ptr = getattr(lib, sym)
        if ptr == ffi.NULL:
            continue
        if rec["kind"] == "form":
            sig = ffi.string(ptr.signature).decode()
            cands = [k for k, s in enumerate(sigs) if s == sig]
            dc = _form_desc(ffi, ptr)
            good = []
            for k in cands:
                dj = _form_desc(jmodf.ffi, jforms[k])
                if dj != dc:
                    continue
                inp = form_inputs(forms[k])
                worst = 0
                for i in range(dc["offsets"][5]):
                    kc, kj = getattr(ptr.form_integrals[i], tt), getattr(jforms[k].form_integrals[i], tt)
                    if kc == ffi.NULL or kj == jmodf.ffi.NULL:
                        worst = 10 ** 9
                        continue
                    inp.e[:] = 0
                    Ac, Aj = inp.call(ffi, kc), inp.call(jmodf.ffi, kj)
                    worst = max(worst, _ulps(Ac, Aj, T))
                    out["kernels_compared"] += 1
                    out["kernels_nonzero"] += int(bool(np.any(Ac != 0)) and bool(np.all(np.isfinite(Ac))))
                good.append((k, worst))
            if good:
                rec["same_descriptor"] = True
                rec["ulps"] = min(w for _, w in good)
                rec["targets"] = [k + 1 for k, w in good]
                k = good[0][0]
                oc = forms[k].coefficients()
                rec["coefficient_names"] = [
                    {"decl": names.get(id(oc[dc["ocp"][j]]), "") if dc["ocp"][j] < len(oc) else "?",
                     "obs": ffi.string(ptr.coefficient_name_map[j]).decode()} for j in range(dc["num_coefficients"])]
                rec["constant_names"] = [
                    {"decl": names.get(id(c), ""), "obs": ffi.string(ptr.constant_name_map[j]).decode()}
                    for j, c in enumerate(forms[k].constants()[:dc["num_constants"]])]
            else:
                rec["targets"] = [k + 1 for k in cands]   # bound by signature, but descriptor differs from JIT
        else:
            dc = _expr_desc(ffi, ptr)
            good = []
            for k, (ex, pts) in enumerate((e[0], e[1]) for e in exprs):
                dj = _expr_desc(jmode.ffi, jexprs[k])
                if dj != dc:
                    continue
                argdims = [a.ufl_function_space().ufl_element().dim for a in ufl.algorithms.extract_arguments(ex)]
                coefs = ufl.algorithms.extract_coefficients(ex)
                consts = ufl.algorithms.analysis.extract_constants(ex)
                doms = ufl.domain.extract_domains(ex)
                inp = _Inputs(T, argdims, [c.ufl_element().dim for c in coefs],
                              [int(np.prod(c.ufl_shape)) if c.ufl_shape else 1 for c in consts],
                              _coord_points(doms[0]) if doms else np.zeros((1, 1)),
                              extra_A=max(1, dc["num_points"]) * max(1, int(np.prod(dc["value_shape"] or [1]))))
                Ac, Aj = inp.call(ffi, getattr(ptr, tt)), inp.call(jmode.ffi, getattr(jexprs[k], tt))
                w = _ulps(Ac, Aj, T)
                out["kernels_compared"] += 1
                out["kernels_nonzero"] += int(bool(np.any(Ac != 0)) and bool(np.all(np.isfinite(Ac))))
                good.append((k, w))
            if good:
                best = min(w for _, w in good)
                ex0 = exprs[good[0][0]][0]
                oc = ufl.algorithms.extract_coefficients(ex0)
                rec["coefficient_names"] = [
                    {"decl": names.get(id(oc[dc["ocp"][j]]), "") if dc["ocp"][j] < len(oc) else "?",
                     "obs": ffi.string(ptr.coefficient_names[j]).decode()} for j in range(dc["num_coefficients"])]
                rec["constant_names"] = [
                    {"decl": names.get(id(c), ""), "obs": ffi.string(ptr.constant_names[j]).decode()}
                    for j, c in enumerate(ufl.algorithms.analysis.extract_constants(ex0)[:dc["num_constants"]])]
                rec["same_descriptor"] = True
                rec["ulps"] = best
                # an expression has no signature field: it is bound to the objects whose data and values it reproduces
                rec["targets"] = [len(forms) + k + 1 for k, w in good if w == best]
    return out


def pair_worker(job: dict) -> list:
    root = Path(job["cache_dir"])
    res = []
    for j in job["jobs"]:
        try:
            res.append(pair_case(j, root, job.get("generated_ufl", {})))
        except Exception as e:  # noqa: BLE001
            import traceback
            res.append({"id": j["id"], "error": f"{type(e).__name__}: {e}\n{traceback.format_exc()[-1500:]}"})
    return res


# ===========================================================================
# worker dispatch


def _main(argv):
    kind, jf, of = argv[1], argv[2], argv[3]
    job = json.loads(Path(jf).read_text())
    common.ensure_repo_on_path()
    res = {"c06worker": c06_worker, "pairworker": pair_worker}[kind](job)
    tmp = of + ".tmp"
    Path(tmp).write_text(json.dumps(res))
    os.replace(tmp, of)
    return 0


if __name__ == "__main__":
    sys.exit(_main(sys.argv))
