"""Engine S3: abstract form -> descriptor (Descriptor.tla), option sources (Options.tla).

Division of labour (BUILDER_BRIEF): TLC enumerates the abstract cases and *computes the expected value
and the comparison*; this file only (a) turns TLC-emitted abstract cases into real UFL objects / real
`python -m ffcx` runs, (b) projects the real artefacts (ufcx_form fields read through cffi, kernel
results, generated files, nm symbol tables) into small JSON values, (c) runs TLC and reads verdicts.

Worker entry points (run in child processes with env=common.child_env()):
    python -m harness.s3 c06worker JOB.json OUT.json
    python -m harness.s3 pairworker JOB.json OUT.json
"""

from __future__ import annotations

import json
import os
import random
import re
import subprocess
import sys
import time
from concurrent.futures import ThreadPoolExecutor
from pathlib import Path

from . import common, tlc
from .common import MachineryError

NWORKERS = max(1, min(6, common.NCPU))

# ---------------------------------------------------------------------------
# reading multi-line PrintT output


def printed_values(out: str, heads: tuple[str, ...]):
    """All tuples `<< "HEAD", ... >>` PrintT'ed by TLC (the pretty-printer wraps long values)."""
    vals = []
    buf: list[str] | None = None
    depth = 0
    for line in out.splitlines():
        if buf is None:
            if not line.startswith("<<"):
                continue
            buf, depth = [], 0
        buf.append(line)
        instr = False
        j = 0
        while j < len(line):
            ch = line[j]
            if instr:
                if ch == "\\":
                    j += 1
                elif ch == '"':
                    instr = False
            elif ch == '"':
                instr = True
            elif line.startswith("<<", j):
                depth += 1
                j += 1
            elif line.startswith(">>", j):
                depth -= 1
                j += 1
            j += 1
        if depth <= 0:
            text = "\n".join(buf)
            buf = None
            try:
                v = tlc.parse_tla(text)
            except Exception:
                continue
            if isinstance(v, list) and v and v[0] in heads:
                vals.append(v)
    return vals


def _tlc_cfg(spec: str, consts: dict, invs: list[str]) -> str:
    lines = [f"SPECIFICATION {spec}", "CONSTANTS"]
    for k, v in consts.items():
        lines.append(f"  {k} = {tlc.tla(v) if not isinstance(v, str) or not v.startswith('@') else v[1:]}")
    lines += [f"INVARIANT {i}" for i in invs]
    return "\n".join(lines) + "\n"


# ===========================================================================
# C06  Descriptor.tla
# ===========================================================================

DESC_MODULES = ["Descriptor", "DescriptorJudge"]
THEOREMS = ["CanonConforms", "FoldRejected", "ShortRejected", "CountedOncePerId"]
TYPE_ABBR = {"cell": "c", "exterior_facet": "ef", "interior_facet": "if", "vertex": "v", "ridge": "r"}
RULE_ABBR = {"default": "d", "deg1": "q1", "deg3": "q3"}


def form_key(F: dict) -> str:
    ints = "|".join(
        f"{TYPE_ABBR[i['type']]}:{'e' if not i['sub'] else '.'.join(map(str, i['sub']))}:{RULE_ABBR[i['rule']]}"
        for i in F["integrals"])
    return f"{F['cell']}/r{F['rank']}/[{ints}]/w={','.join(F['coefs']) or '-'}/{F['cpat']}"


def _norm_form(F: dict) -> dict:
    return {"cell": F["cell"], "rank": F["rank"], "cpat": F["cpat"], "coefs": list(F["coefs"]),
            "integrals": [{"type": i["type"], "sub": list(i["sub"]), "rule": i["rule"]} for i in F["integrals"]]}


def desc_model_check(chk, maxlen: int):
    """The spec-level theorems on the whole bounded domain (no real code involved)."""
    d = tlc.stage("desc-mc", ["Descriptor"])
    r = tlc.run(d, "Descriptor", cfg_text=_tlc_cfg("ESpec", {"MaxLen": maxlen, "What": "shapes"}, THEOREMS),
                workers=min(8, common.NCPU), timeout=1500)
    tlc.must_ok(r, "Descriptor.tla theorems")
    if r.violated:
        raise MachineryError(f"Descriptor.tla: spec-level theorem {r.violated} fails - the specification is wrong:\n"
                             + "\n".join(r.error_trace[:40]))
    chk.add(states=r.distinct, transitions=r.generated)
    chk.note(f"Descriptor.tla domain MaxLen={maxlen}: {r.distinct} states (shapes + abstract forms), "
             f"theorems {', '.join(THEOREMS)} hold on all of them ({r.wall_s:.1f}s)")
    return r


def desc_emit(what: str, maxlen: int, simulate: str | None = None, seed: int | None = None, depth=None):
    d = tlc.stage("desc-emit-" + what, ["Descriptor"])
    r = tlc.run(d, "Descriptor", cfg_text=_tlc_cfg("ESpec", {"MaxLen": maxlen, "What": what}, ["Emit"]),
                workers=1, simulate=simulate, seed=seed, depth=depth, timeout=900)
    tlc.must_ok(r, f"Descriptor.tla emit {what}")
    forms, seen = [], set()
    for v in printed_values(r.out, ("FORM",)):
        F = _norm_form(v[1])
        k = form_key(F)
        if k not in seen:
            seen.add(k)
            forms.append(F)
    if not forms:
        raise MachineryError("TLC emitted no abstract forms:\n" + r.out[-2000:])
    return forms, r


def _shape_features(F: dict) -> set:
    ints = F["integrals"]
    feats = set()
    for i in ints:
        shape = "e" if not i["sub"] else ("s" if len(i["sub"]) == 1 else "t")
        feats.add(("cts", F["cell"], i["type"], shape))
        if i["rule"] != "default":
            feats.add(("rule", F["cell"], i["type"], i["rule"]))
    for a in range(len(ints)):
        for b in range(a + 1, len(ints)):
            A, B = ints[a], ints[b]
            feats.add(("pair", F["cell"], A["type"], B["type"]))
            if A["type"] == B["type"]:
                sa, sb = set(A["sub"]) or {-1}, set(B["sub"]) or {-1}
                if A["sub"] and B["sub"] and min(A["sub"]) > min(B["sub"]):
                    feats.add(("descending", F["cell"], A["type"]))
                if sa & sb:
                    feats.add(("overlap", F["cell"], A["type"], len(sa) > 1, len(sb) > 1))
                if (not A["sub"]) != (not B["sub"]):
                    feats.add(("ew+numbered", F["cell"], A["type"], not A["sub"]))
    feats.add(("len", F["cell"], len(ints)))
    feats.add(("ntypes", F["cell"], len({i["type"] for i in ints})))
    return feats


def select_covering(forms: list[dict], limit: int, rng: random.Random) -> list[dict]:
    """Greedy cover of _shape_features, then fill up to `limit` at random (all from rng)."""
    pool = list(forms)
    rng.shuffle(pool)
    feats = [(_shape_features(F), F) for F in pool]
    chosen, covered = [], set()
    remaining = feats
    while remaining and len(chosen) < limit:
        best = max(remaining, key=lambda x: len(x[0] - covered))
        if not best[0] - covered:
            break
        chosen.append(best[1])
        covered |= best[0]
        remaining = [x for x in remaining if x is not best]
    rest = [x[1] for x in remaining]
    chosen += rest[: max(0, limit - len(chosen))]
    return chosen


def dress(shapes: list[dict], dressings: list[dict], rng: random.Random) -> list[dict]:
    """Pair each integral list with a dressing (rank, coefficients, constants layout); every dressing is
    used about equally often, the pairing is a seed-chosen shuffle."""
    out = []
    order: list[dict] = []
    for F in shapes:
        if not order:
            order = list(dressings)
            rng.shuffle(order)
        D = order.pop()
        out.append({"cell": F["cell"], "rank": D["rank"], "cpat": D["cpat"], "coefs": list(D["coefs"]),
                    "integrals": F["integrals"]})
    return out


PRIMES = [1543, 1549, 1553, 1559, 1567, 1571, 1579, 1583, 1597, 1601, 1607, 1609, 1613, 1619, 1621, 1627,
          1637, 1657, 1663, 1667, 1669, 1693, 1697, 1699]


def make_modules(forms: list[dict], per_module: int = 15) -> list[list[dict]]:
    """Group forms into JIT modules; slot s of a module gets the literal factor PRIMES[s] so that a kernel
    borrowed from another form of the same module cannot decode to a label multiset."""
    mods = []
    for a in range(0, len(forms), per_module):
        mods.append([{"id": a + s, "form": F, "scale": PRIMES[s % len(PRIMES)]}
                     for s, F in enumerate(forms[a:a + per_module])])
    return mods


def run_workers(kind: str, jobs: list, name: str, extra: dict | None = None, nworkers: int | None = None,
                timeout: int = 3000) -> list:
    """Run `python -m harness.s3 <kind>` children over `jobs` (round-robin split); returns all results."""
    nw = max(1, min(nworkers or NWORKERS, len(jobs)))
    sc = common.scratch(name)
    parts = [jobs[i::nw] for i in range(nw)]

    def one(i):
        jf, of = sc / f"job{i}.json", sc / f"out{i}.json"
        cache = sc / f"cache{i}"
        cache.mkdir(exist_ok=True)
        cfgdir = sc / "xdg-empty"
        cfgdir.mkdir(exist_ok=True)
        jf.write_text(json.dumps({"jobs": parts[i], "cache_dir": str(cache), **(extra or {})}))
        env = common.child_env({"XDG_CONFIG_HOME": str(cfgdir)})
        p = subprocess.run([common.PY, "-m", "harness.s3", kind, str(jf), str(of)], cwd=str(cache), env=env,
                           capture_output=True, text=True, timeout=timeout)
        if p.returncode != 0 or not of.exists():
            raise MachineryError(f"{kind} child {i} failed (rc={p.returncode}):\n{p.stderr[-3000:]}")
        return json.loads(of.read_text())

    with ThreadPoolExecutor(nw) as ex:
        res = list(ex.map(one, range(nw)))
    return [x for part in res for x in part]


def desc_judge(cases: list[dict]):
    """cases: [{id, form, obs}] -> {id: [(field, expected, observed)...]} (empty list = conforms)."""
    d = tlc.stage("desc-judge", DESC_MODULES)
    cf = d / "cases.json"
    cf.write_text(json.dumps(cases))
    r = tlc.run(d, "DescriptorJudge", cfg_text=_tlc_cfg("JSpec", {"MaxLen": 3, "What": "shapes"}, ["Judge"]),
                workers=1, env={"CASE_FILE": str(cf)}, timeout=1500)
    tlc.must_ok(r, "DescriptorJudge")
    if r.violated:
        raise MachineryError("DescriptorJudge stopped: " + str(r.violated) + "\n" + r.out[-2000:])
    verdict: dict = {}
    for v in printed_values(r.out, ("OK", "VIOL")):
        if v[0] == "OK":
            verdict.setdefault(v[1], [])
        else:
            verdict.setdefault(v[1], []).append((v[2], v[3], v[4]))
    missing = [c["id"] for c in cases if c["id"] not in verdict]
    if missing:
        raise MachineryError(f"DescriptorJudge gave no verdict for cases {missing[:10]}:\n{r.out[-1500:]}")
    return verdict, r


def c06_collect(chk, forms: list[dict], name: str):
    """Realise + compile + observe (children), judge (TLC); report violations."""
    mods = make_modules(forms)
    t0 = time.time()
    results = run_workers("c06worker", mods, name)
    t1 = time.time()
    byid = {r["id"]: r for r in results}
    cases, failed = [], []
    for m in mods:
        for it in m:
            r = byid.get(it["id"])
            if r is None:
                raise MachineryError(f"no result for form {it['id']}")
            if "obs" in r:
                cases.append({"id": it["id"], "form": it["form"], "obs": r["obs"]})
            else:
                failed.append((it, r))
    verdict, jr = desc_judge(cases) if cases else ({}, None)
    if jr is not None:
        chk.add(states=jr.distinct, transitions=jr.generated)
    chk.add(traces_validated_against_impl=len(cases), evaluations=sum(len(c["obs"]["ids"]) for c in cases))
    chk.note(f"{len(forms)} abstract forms in {len(mods)} JIT modules: compile+call {t1 - t0:.1f}s, "
             f"TLC judge {jr.wall_s if jr else 0:.1f}s")
    for c in cases:
        mm = verdict[c["id"]]
        if mm:
            fk = form_key(c["form"])
            field = mm[0][0]
            chk.violation(f"C06:{field}:{fk}",
                          f"ufcx_form of {fk}: {field} expected {mm[0][1]} observed {mm[0][2]}"
                          + (f" (+{len(mm) - 1} more fields)" if len(mm) > 1 else ""),
                          {"form": c["form"], "obs": c["obs"], "mismatches": mm})
    for it, r in failed:
        fk = form_key(it["form"])
        chk.violation(f"C06:no-descriptor:{fk}", f"form {fk} of the domain did not compile/load: {r.get('error')}",
                      {"form": it["form"], "error": r.get("error")})
    return cases, verdict


def c06_controls(chk, cases: list[dict], verdict: dict, rng: random.Random) -> int:
    """Cheap negative controls on recorded descriptors: corrupt one field -> TLC must reject."""
    good = [c for c in cases if not verdict[c["id"]] and len(c["obs"]["ids"]) >= 2]
    rng.shuffle(good)
    mutants = []
    for c in good[:12]:
        o = c["obs"]
        n = len(o["ids"])
        muts = []
        o1 = json.loads(json.dumps(o)); o1["ids"][0], o1["ids"][-1] = o1["ids"][-1] + 1, o1["ids"][0]
        muts.append(("ids", o1))
        o2 = json.loads(json.dumps(o)); o2["labels"][rng.randrange(n)][0] += 1
        muts.append(("labels", o2))
        o3 = json.loads(json.dumps(o))
        t = max(k for k in range(1, 6) if o3["offsets"][k] > o3["offsets"][k - 1])
        for k in range(t, 6):
            o3["offsets"][k] -= 1
        for fld in ("ids", "tags", "ceh", "exact", "labels"):
            o3[fld] = o3[fld][:-1]
        muts.append(("offsets", o3))
        o4 = json.loads(json.dumps(o)); o4["rank"] = 1 - o4["rank"]
        muts.append(("rank", o4))
        o5 = json.loads(json.dumps(o)); o5["num_constants"] += 1
        muts.append(("num_constants", o5))
        for nm, om in muts:
            mutants.append({"id": len(mutants), "form": c["form"], "obs": om, "mut": nm})
    if not mutants:
        return 0
    v, _ = desc_judge([{k: m[k] for k in ("id", "form", "obs")} for m in mutants])
    accepted = [m for m in mutants if not v[m["id"]]]
    if accepted:
        raise MachineryError("negative control: TLC accepted corrupted descriptors: "
                             + "; ".join(f"{m['mut']} of {form_key(m['form'])}" for m in accepted[:5]))
    return len(mutants)


def c06_run(chk):
    common.ensure_repo_on_path()
    rng = random.Random(chk.seed)
    quick = chk.tier == "quick"
    desc_model_check(chk, 2 if quick else 3)
    dressings, _ = desc_emit("dressings", 1)
    if quick:
        shapes, r = desc_emit("shapes", 3, simulate="num=1500", depth=6, seed=chk.seed + 1)
        shapes = select_covering(shapes, 330, rng)
        how = f"TLC -simulate (seed {chk.seed + 1}) over Descriptor!ESpec MaxLen=3, greedy cover of (cell,type,id-shape), " \
              "ordered type pairs, overlaps, rules, descending ids; then random fill"
    else:
        shapes, r = desc_emit("shapes", 2)
        n2 = len(shapes)
        more, r3 = desc_emit("shapes", 3, simulate="num=20000", depth=6, seed=chk.seed + 1)
        have = {form_key(F) for F in shapes}
        more = [F for F in more if form_key(F) not in have and len(F["integrals"]) == 3]
        rng.shuffle(more)
        shapes = shapes + select_covering(more, 8000, rng)
        how = f"all {n2} abstract forms with <=2 integrals (exhaustive BFS of Descriptor!ESpec MaxLen=2) + " \
              f"{len(shapes) - n2} seed-chosen forms with 3 integrals (TLC -simulate seed {chk.seed + 1})"
    forms = dress(shapes, dressings, rng)
    # the binding is only as good as its reach: every dressing at least once
    chk.note(f"{len(forms)} abstract forms ({len(dressings)} dressings): {how}")
    cases, verdict = c06_collect(chk, forms, "c06")
    nctl = c06_controls(chk, cases, verdict, rng)
    nontrivial = sum(1 for F in forms if len(F["integrals"]) >= 2 or len(F["integrals"][0]["sub"]) > 1)
    chk.add(distinct_nontrivial=nontrivial, controls_rejected=nctl,
            rule="one case = one abstract form (cell, rank, integral list with type/subdomain/rule, coefficient list, "
                 "constants layout) emitted by TLC from Descriptor!ESpec, realised as a UFL form, JIT-compiled, every "
                 "listed kernel called; non-trivial = >=2 declared integrals or a tuple subdomain. " + how,
            samples=[form_key(F) for F in forms[:8]])
    chk.assumptions += [
        "label multiset decoded from sum(A)/(measure*literal factor) with constants 8^(k-1): exact for <=3 labels",
        "basix hashes of P1/P2 and of the affine coordinate element identify the element (trusted: basix)",
        "interior-facet integrals on prisms are outside the domain (FFCx rejects them before code generation)",
    ]


def c06_replay(chk, path):
    common.ensure_repo_on_path()
    doc = json.loads(Path(path).read_text())
    F = _norm_form(doc["payload"]["form"])
    c06_collect(chk, [F], "c06-replay")


# ---------------------------------------------------------------------------
# C06 worker: runs in a child process


def make_consts(cpat: str, n: int) -> list[dict]:
    """Realisation of Descriptor!Consts (kept in step with the spec; a disagreement shows up as a
    constant_ranks/constant_shapes mismatch on every form, i.e. in development, not as a silent pass)."""
    lab = [{"shape": [], "label": k} for k in range(1, n + 1)]
    ex = lambda sh: {"shape": sh, "label": 0}  # noqa: E731
    if cpat == "plain":
        return lab
    if cpat == "vecfirst":
        return [ex([2])] + lab
    if cpat == "matmid":
        return lab[:1] + [ex([2, 3])] + lab[1:]
    if cpat == "both":
        return [ex([2])] + lab[:1] + [ex([2, 3])] + lab[1:] + [ex([3])]
    raise ValueError(cpat)


REFCELL = {
    "triangle": [[0, 0, 0], [1, 0, 0], [0, 1, 0]],
    "prism": [[0, 0, 0], [1, 0, 0], [0, 1, 0], [0, 0, 1], [1, 0, 1], [0, 1, 1]],
}
# (cell, integral type, entity cell type) -> (local entity index, measure of that entity of the reference cell)
ENTITY = {
    ("triangle", "cell", "triangle"): (0, 0.5),
    ("triangle", "exterior_facet", "interval"): (1, 1.0),     # edge x = 0
    ("triangle", "interior_facet", "interval"): (1, 1.0),
    ("triangle", "vertex", "point"): (0, 1.0),
    ("prism", "cell", "prism"): (0, 0.5),
    ("prism", "exterior_facet", "triangle"): (0, 0.5),         # bottom face
    ("prism", "exterior_facet", "quadrilateral"): (1, 1.0),    # face y = 0
    ("prism", "vertex", "point"): (0, 1.0),
}
ITYPES = ["cell", "exterior_facet", "interior_facet", "vertex", "ridge"]
RULE_DEGREE = {"default": None, "deg1": 1, "deg3": 3}


class _Ctx:
    """Per-cell UFL objects shared by the forms of one module."""

    def __init__(self, cell):
        import basix.ufl
        import ufl
        gdim = {"triangle": 2, "prism": 3}[cell]
        self.cell = cell
        self.mesh = ufl.Mesh(basix.ufl.element("Lagrange", cell, 1, shape=(gdim,)))
        self.P1 = ufl.FunctionSpace(self.mesh, basix.ufl.element("Lagrange", cell, 1))
        self.P2 = ufl.FunctionSpace(self.mesh, basix.ufl.element("Lagrange", cell, 2))
        self.measure = {"cell": ufl.Measure("dx", domain=self.mesh),
                        "exterior_facet": ufl.Measure("ds", domain=self.mesh),
                        "interior_facet": ufl.Measure("dS", domain=self.mesh),
                        "vertex": ufl.Measure("dP", domain=self.mesh)}
        self.elem_tag = {self.P1.ufl_element().basix_hash(): "P1", self.P2.ufl_element().basix_hash(): "P2"}
        self.coord_tag = {self.mesh.ufl_coordinate_element().basix_hash(): "P1"}


def build_form(ctx: _Ctx, F: dict, scale: int):
    """Abstract form -> UFL form.  Label k = scalar Constant multiplying scale * (test function | 1)."""
    import ufl
    n = len(F["integrals"])
    coefs = [ufl.Coefficient(ctx.P2 if k == "P2" else ctx.P1) for k in F["coefs"]]
    dropped = [c for c, k in zip(coefs, F["coefs"]) if k == "dropped"]
    used = [c for c, k in zip(coefs, F["coefs"]) if k != "dropped"]
    consts = [ufl.Constant(ctx.mesh, shape=tuple(c["shape"])) for c in make_consts(F["cpat"], n)]
    lab = {c["label"]: o for c, o in zip(make_consts(F["cpat"], n), consts) if c["label"]}
    extras = [o for c, o in zip(make_consts(F["cpat"], n), consts) if not c["label"]]
    v = ufl.TestFunction(ctx.P1) if F["rank"] == 1 else None
    form = None
    for k, I in enumerate(F["integrals"], start=1):
        res = (lambda f: f("+")) if I["type"] == "interior_facet" else (lambda f: f)
        g = scale * lab[k]
        for f in used:
            g = g * res(f)
        if k == 1:
            for K in extras:
                g = g * K[(0,) * len(K.ufl_shape)]
        if dropped:
            g = g * res(dropped[0])
        elif v is not None:
            g = g * res(v)
        md = {} if RULE_DEGREE[I["rule"]] is None else {"degree": RULE_DEGREE[I["rule"]]}
        sub = I["sub"]
        sd = None if not sub else (sub[0] if len(sub) == 1 else tuple(sub))
        m = ctx.measure[I["type"]]
        term = g * (m(sd, **md) if sd is not None else (m(**md) if md else m))
        form = term if form is None else form + term
    if dropped:
        # the form as written contains the coefficient; the integrals do not depend on it
        form = ufl.derivative(form, dropped[0], v)
    return form


def observe_form(ffi, cf, ctx: _Ctx, F: dict, scale: int) -> dict:
    """Projection of one compiled ufcx_form."""
    import basix
    import numpy as np
    n = len(F["integrals"])
    nco, nk = int(cf.num_coefficients), int(cf.num_constants)
    obs = {"rank": int(cf.rank), "num_coefficients": nco, "num_constants": nk}
    sane = 0 <= nco <= 16 and 0 <= nk <= 16 and 0 <= obs["rank"] <= 4
    ncr, nkr = (nco, nk) if sane else (0, 0)
    obs["original_coefficient_positions"] = [int(cf.original_coefficient_positions[i]) for i in range(ncr)]
    obs["coefficient_name_map"] = [ffi.string(cf.coefficient_name_map[i]).decode() for i in range(ncr)]
    obs["constant_ranks"] = [int(cf.constant_ranks[i]) for i in range(nkr)]
    obs["constant_shapes"] = [[int(cf.constant_shapes[i][j]) for j in range(min(4, max(0, obs["constant_ranks"][i])))]
                              for i in range(nkr)]
    obs["constant_name_map"] = [ffi.string(cf.constant_name_map[i]).decode() for i in range(nkr)]
    nel = (obs["rank"] + ncr) if sane else 0
    obs["elements"] = [ctx.elem_tag.get(int(cf.finite_element_hashes[i]), "unknown") for i in range(nel)]
    off = [int(cf.form_integral_offsets[i]) for i in range(6)]
    obs["offsets"] = off
    obs.update(ids=[], tags=[], ceh=[], exact=[], labels=[])
    if off[0] != 0 or any(off[i] > off[i + 1] for i in range(5)) or off[5] > 64:
        return obs
    # data for the kernel calls: w = 1 (Lagrange bases sum to one), extras = 1, label k = 8^(k-1)
    cvals = []
    for c in make_consts(F["cpat"], n):
        size = int(np.prod(c["shape"])) if c["shape"] else 1
        cvals += [8.0 ** (c["label"] - 1)] * size if c["label"] else [1.0] * size
    cvals = np.array(cvals + [0.0] * 8, dtype=np.float64)
    w = np.ones(256, dtype=np.float64)
    x = np.array(REFCELL[ctx.cell] * 2, dtype=np.float64).ravel()
    perm = np.zeros(2, dtype=np.uint8)
    for j in range(off[5]):
        t = max(k for k in range(5) if off[k] <= j)
        itg = cf.form_integrals[j]
        obs["ids"].append(int(cf.form_integral_ids[j]))
        try:
            tag = basix.CellType(int(itg.domain)).name
        except ValueError:
            tag = f"unknown{int(itg.domain)}"
        obs["tags"].append(tag)
        obs["ceh"].append(ctx.coord_tag.get(int(itg.coordinate_element_hash), "unknown"))
        ent = ENTITY.get((ctx.cell, ITYPES[t], tag))
        kern = itg.tabulate_tensor_float64
        if ent is None or kern == ffi.NULL or not sane:
            obs["exact"].append(False)
            obs["labels"].append([0] * n)
            continue
        A = np.zeros(64, dtype=np.float64)
        e = np.array([ent[0], ent[0]], dtype=np.int32)
        kern(ffi.cast("double *", A.ctypes.data), ffi.cast("double *", w.ctypes.data),
             ffi.cast("double *", cvals.ctypes.data), ffi.cast("double *", x.ctypes.data),
             ffi.cast("int *", e.ctypes.data), ffi.cast("uint8_t *", perm.ctypes.data), ffi.NULL)
        X = float(A.sum()) / (ent[1] * scale)
        r = round(X) if X == X and abs(X) < 1e15 else -1
        # error bound: <= 64 additions/multiplications of positive terms, each exact up to eps: |X - r| << 1e-9 r
        exact = 0 <= r < 8 ** n and abs(X - r) <= 1e-9 * max(1.0, abs(r))
        obs["exact"].append(bool(exact))
        obs["labels"].append([(r // 8 ** k) % 8 for k in range(n)] if exact else [0] * n)
    return obs


def c06_worker(job: dict) -> list:
    import ffcx.codegeneration.jit as jit
    out = []
    ctxs: dict = {}

    def compile_items(items):
        forms = []
        for it in items:
            cell = it["form"]["cell"]
            if cell not in ctxs:
                ctxs[cell] = _Ctx(cell)
            forms.append(build_form(ctxs[cell], it["form"], it["scale"]))
        cfs, module, _ = jit.compile_forms(forms, cffi_extra_compile_args=["-O0"], cache_dir=Path(job["cache_dir"]))
        return [{"id": it["id"], "obs": observe_form(module.ffi, cf, ctxs[it["form"]["cell"]], it["form"], it["scale"])}
                for it, cf in zip(items, cfs)]

    for items in job["jobs"]:
        try:
            out += compile_items(items)
        except Exception:  # isolate the form(s) that cannot be compiled
            for it in items:
                try:
                    out += compile_items([it])
                except Exception as e:  # noqa: BLE001
                    out.append({"id": it["id"], "error": f"{type(e).__name__}: {str(e)[:300]}"})
    return out


# ===========================================================================
# worker dispatch


def _main(argv):
    kind, jf, of = argv[1], argv[2], argv[3]
    job = json.loads(Path(jf).read_text())
    common.ensure_repo_on_path()
    res = {"c06worker": c06_worker}[kind](job)
    tmp = of + ".tmp"
    Path(tmp).write_text(json.dumps(res))
    os.replace(tmp, of)
    return 0


if __name__ == "__main__":
    sys.exit(_main(sys.argv))
