"""Engine S4 - the generated kernel as a program (spec/Kernel.tla, KernelPair.tla, KernelThreads.tla, RuleIds.tla).

The real LNodes ASTs of every kernel of a corpus (harness/kcorpus.py, plus /repo/demo/*.py in the thorough tier) are
exported as bytecode (harness/kexport.py) and EXECUTED by TLC on the abstract machine of Kernel.tla, one TLC state
per statement instance, for every valid entity index / permutation code.  The properties are the invariants of the
specification; Python only builds inputs, runs TLC and reads its verdict.

    run_c08(chk)        InBounds, NoDeref                                   (+ guard-page calls of the real C, thorough)
    run_c07(chk)        WriteDiscipline, NoUninitialisedRead; Additive, Repeatable (KernelPair); threads model;
                        real C kernels: 8 threads bit-for-bit, pre-filled A twice, inputs in read-only memory
    run_reads(chk)      ReadsOnlyEnabled, DisabledIrrelevant (+ NaN-poisoned real C)            C05 truthfulness half
    run_optimizer(chk)  optimiser input vs output, each pass alone: Equivalent + PairClean       C17 optimiser half
    run_names(chk)      ScopeDiscipline, UniqueNames on every corpus AST; rule -> id injectivity C19 (b)
    run_unsupported(chk), run_werror(chk)                                                       C19 (a)
"""

from __future__ import annotations

import concurrent.futures as cf
import ctypes
import json
import math
import multiprocessing
import os
import random
import re
import subprocess
import threading
import time
import traceback
from pathlib import Path

import numpy as np

from . import common, kcorpus, tlc
from .common import MachineryError

NPROC = max(1, min(4, common.NCPU))
P = 46337

INV_PROPERTY = {"InBounds": "C08", "NoDeref": "C08", "WriteDiscipline": "C07", "NoUninitialisedRead": "C07",
                "ScopeDiscipline": "C19", "UniqueNames": "C19", "ReadsOnlyEnabled": "C05"}


# =============================================================================================
# worker side: real pipeline -> kernels (bytecode JSON) [+ compiled module, real-C experiments]
# =============================================================================================
def _groups(job):
    if job.get("demo"):
        path = Path(job["demo"])
        forms, exprs = kcorpus.load_demo(path)
        st = "complex128" if "Complex" in path.stem else "float64"
        out = []
        if forms:
            out.append((list(forms), {"scalar_type": st}, "form"))
        if exprs:
            out.append(([(e, np.asarray(p)) for e, p in exprs], {"scalar_type": st}, "expr"))
        return out
    objs, opts = kcorpus.build(job["entry"])
    return [(objs, opts, kcorpus.ENTRIES[job["entry"]][1])]


_CC_ERRORS = ("VerificationError", "CompileError", "LinkError", "DistutilsExecError", "CalledProcessError")


def _phase_of(exc: BaseException) -> str:
    chain, e = [], exc
    while e is not None and len(chain) < 6:
        chain.append(type(e).__name__)
        e = e.__cause__ or e.__context__
    return "cc" if any(n in _CC_ERRORS for n in chain) else "python"


def _compiled_kernels(jitinfo, caps):
    """name -> {"enabled": [...], "sym", "addr"} read from the COMPILED module (cffi structs + exported symbols)."""
    out = {}
    lib = ctypes.CDLL(jitinfo["so"])
    ffi = jitinfo["module"].ffi
    by_addr = {}
    if jitinfo["kind"] == "form":
        for fi, cform in enumerate(jitinfo["compiled"]):
            offs = cform.form_integral_offsets
            ntypes = 5
            n = int(offs[ntypes])
            for k in range(n):
                integ = cform.form_integrals[k]
                for st in ("float64", "float32", "complex128", "complex64"):
                    fp = getattr(integ, f"tabulate_tensor_{st}")
                    if fp != ffi.NULL:
                        en = ([bool(integ.enabled_coefficients[j]) for j in range(int(cform.num_coefficients))]
                              if integ.enabled_coefficients != ffi.NULL else [])
                        by_addr[int(ffi.cast("uintptr_t", fp))] = {
                            "enabled": en, "form": fi, "slot": k, "scalar": st, "domain": int(integ.domain),
                            "needs_perm": bool(integ.needs_facet_permutations), "ncoeff": int(cform.num_coefficients),
                            "orig_pos": [int(cform.original_coefficient_positions[j]) for j in range(int(cform.num_coefficients))],
                            "id": int(cform.form_integral_ids[k])}
    for cap in caps:
        sym = f"tabulate_tensor_{cap.name}"
        try:
            addr = ctypes.cast(getattr(lib, sym), ctypes.c_void_p).value
        except AttributeError as e:
            raise MachineryError(f"compiled module exports no symbol {sym}") from e
        info = dict(by_addr.get(addr, {})) if jitinfo["kind"] == "form" else {"enabled": None, "scalar": cap.scalar_type}
        if jitinfo["kind"] == "form" and not info:
            raise MachineryError(f"kernel {sym} is not listed in any compiled ufcx_form")
        info["sym"] = sym
        out[cap.name] = info
    return out


def _geometry(obj, kind, two: bool, rnd: random.Random):
    """coordinate_dofs of a mildly perturbed reference cell (3 components per node), '+' and '-' side alike."""
    import ufl  # noqa: PLC0415

    doms = ufl.domain.extract_domains(obj if kind == "form" else obj[0])
    dom = max(doms, key=lambda d: d.topological_dimension)
    (sub,) = set(dom.ufl_coordinate_element().sub_elements)
    pts = np.asarray(sub.basix_element.points, dtype=np.float64)
    x = np.zeros((pts.shape[0], 3))
    x[:, : pts.shape[1]] = pts
    gdim = dom.geometric_dimension
    x[:, :gdim] += np.array([[rnd.uniform(-0.04, 0.04) for _ in range(gdim)] for _ in range(pts.shape[0])])
    flat = list(x.ravel())
    return flat * (2 if two else 1)


class _Quiet:
    """Send this process's stdout/stderr (gcc writes there) to a file for the duration of a job."""

    def __init__(self, path):
        self.path = str(path)

    def __enter__(self):
        import sys  # noqa: PLC0415

        sys.stdout.flush()
        sys.stderr.flush()
        self.saved = (os.dup(1), os.dup(2))
        fd = os.open(self.path, os.O_WRONLY | os.O_CREAT | os.O_TRUNC, 0o644)
        os.dup2(fd, 1)
        os.dup2(fd, 2)
        os.close(fd)
        return self

    def __exit__(self, *a):
        import sys  # noqa: PLC0415

        sys.stdout.flush()
        sys.stderr.flush()
        os.dup2(self.saved[0], 1)
        os.dup2(self.saved[1], 2)
        os.close(self.saved[0])
        os.close(self.saved[1])

    def text(self):
        try:
            return Path(self.path).read_text(errors="replace")
        except OSError:
            return ""


def _work(job: dict) -> dict:
    with _Quiet(Path(job["outdir"]) / f"log-{re.sub(r'[^A-Za-z0-9_]', '_', job['entry'])}.txt") as q:
        res = _work1(job)
    for e in res.get("errors", []):
        e["output"] = "\n".join(ln for ln in q.text().splitlines() if "error" in ln.lower())[-1500:]
    return res


def _work1(job: dict) -> dict:
    """Build everything for one corpus entry / demo file.  Runs in a pool process."""
    t0 = time.time()
    res = {"entry": job["entry"], "kernels_file": None, "meta": [], "errors": [], "t": 0.0, "opt_calls": 0, "compiled": 0}
    try:
        common.ensure_repo_on_path()
        from . import kexport  # noqa: PLC0415

        if job.get("cc_env"):
            os.environ.update(job["cc_env"])
        kernels = []
        for gi, (objs, opts, kind) in enumerate(_groups(job)):
            jit = None
            if job.get("compile"):
                cdir = Path(job["outdir"]) / f"cache-{re.sub(r'[^A-Za-z0-9_]', '_', job['entry'])}-{gi}"
                jit = {"cache_dir": str(cdir), "cflags": job.get("cflags", ["-O0"])}
            try:
                caps, jitinfo = kexport.capture(objs, opts, variants=tuple(job.get("variants", ("full",))),
                                                record_calls=bool(job.get("record_calls")), jit=jit)
            except MachineryError:
                raise
            except Exception as e:  # noqa: BLE001  - the compiler under test failed: a RESULT, classified by the caller
                res["errors"].append({"group": gi, "kind": kind, "phase": _phase_of(e), "type": type(e).__name__,
                                      "msg": str(e)[-1500:], "trace": traceback.format_exc()[-3000:]})
                continue
            cinfo = _compiled_kernels(jitinfo, caps) if jitinfo else {}
            res["compiled"] += 1 if jitinfo else 0
            contracts = {}
            counter = {}
            for cap in caps:
                obj = objs[cap.obj_index]
                ck = (cap.obj_index, cap.itype, cap.entity, cap.part)
                if ck not in contracts:
                    if cap.kind == "integral":
                        contracts[ck] = kexport.form_extents(obj, cap.itype, cap.entity, cap.part, cap.scalar_type)
                    else:
                        contracts[ck] = kexport.expr_extents(obj[0], obj[1], cap.entity)
                con = contracts[ck]
                base = f"{job['entry']}/{gi}.{cap.obj_index}/{cap.itype}/{cap.domain or cap.entity}"
                counter[base] = counter.get(base, 0) + 1
                label = f"{base}/{counter[base] - 1}"
                ci = cinfo.get(cap.name, {})
                if cap.kind == "integral":
                    enabled = ci["enabled"] if ci.get("enabled") is not None and jitinfo else cap.ir_enabled
                else:
                    enabled = [True] * con["ncoeff"]
                if len(enabled) != con["ncoeff"]:
                    # the compiled form and UFL disagree on how many coefficients there are: C05-layout's business,
                    # but the S4 contract cannot be built
                    raise MachineryError(f"{label}: {len(enabled)} enabled flags for {con['ncoeff']} coefficients of the form")
                res["opt_calls"] += len(cap.opt_calls)
                for var in cap.asts:
                    k = kexport.kernel_json(cap, var, con, enabled, job["seed"], nplanes=job.get("nplanes", 3))
                    k["name"] = label if var == "full" else f"{label}@{var}"
                    k["label"], k["variant"], k["entry"], k["sym"] = label, var, job["entry"], ci.get("sym")
                    k["so"] = jitinfo["so"] if jitinfo else None
                    k["scalar"] = cap.scalar_type
                    k["enabled_source"] = "compiled ufcx_integral" if (jitinfo and cap.kind == "integral") else (
                        "expression: all" if cap.kind != "integral" else "IR (not compiled)")
                    if var == "full":
                        k["opt_calls"] = [{"n_in": len(c["in"]), "n_out": len(c["out"])} for c in cap.opt_calls]
                        rnd = random.Random(f"geom-{job['seed']}-{label}")
                        k["geom"] = _geometry(obj, "form" if cap.kind == "integral" else "expr",
                                              cap.itype == "interior_facet", rnd)
                    kernels.append(k)
        out = Path(job["outdir"]) / f"k-{re.sub(r'[^A-Za-z0-9_]', '_', job['entry'])}.json"
        out.write_text(json.dumps(kernels))
        res["kernels_file"] = str(out)
        res["meta"] = [{"name": k["name"], "label": k["label"], "variant": k["variant"], "steps": k["steps"], "itype": k["itype"],
                        "entity": k["entity"], "so": k["so"], "sym": k["sym"], "scalar": k["scalar"]} for k in kernels]
    except MachineryError as e:
        res["machinery"] = str(e)
    except Exception:  # noqa: BLE001
        res["machinery"] = traceback.format_exc()[-3000:]
    res["t"] = round(time.time() - t0, 2)
    return res


# =============================================================================================
# parent side
# =============================================================================================
def _ctx():
    return multiprocessing.get_context("fork")


def build(chk, entries, *, variants=("full",), compile=False, cflags=("-O0",), record_calls=False, demos=(),
          nplanes=3, cc_env=None):
    """Run the real pipeline on every entry (parallel).  -> (kernels, errors, stats)"""
    outdir = common.scratch("s4")
    jobs = [{"entry": n, "variants": list(variants), "compile": compile, "cflags": list(cflags), "seed": chk.seed,
             "outdir": str(outdir), "record_calls": record_calls, "nplanes": nplanes, "cc_env": cc_env} for n in entries]
    jobs += [{"entry": "demo_" + Path(d).stem, "demo": str(d), "variants": list(variants), "compile": compile,
              "cflags": list(cflags), "seed": chk.seed, "outdir": str(outdir), "record_calls": record_calls,
              "nplanes": nplanes, "cc_env": cc_env} for d in demos]
    kernels, errors = [], []
    stats = {"entries": len(jobs), "opt_calls": 0, "compiled_modules": 0, "build_s": 0.0}
    t0 = time.time()
    with cf.ProcessPoolExecutor(max_workers=NPROC, mp_context=_ctx()) as ex:
        for r in ex.map(_work, jobs):
            if r.get("machinery"):
                raise MachineryError(f"S4 worker failed on {r['entry']}: {r['machinery']}")
            for e in r["errors"]:
                errors.append(dict(e, entry=r["entry"]))
            stats["opt_calls"] += r["opt_calls"]
            stats["compiled_modules"] += r["compiled"]
            if r["kernels_file"]:
                kernels.extend(json.loads(Path(r["kernels_file"]).read_text()))
    stats["build_s"] = round(time.time() - t0, 1)
    return kernels, errors, stats


def n_inis(k, mode):
    ne = [len(v) for v in k["valid"]["e"]]
    nq = [len(v) for v in k["valid"]["q"]]
    if mode == "all":
        return int(np.prod(ne + nq, dtype=np.int64)) if ne + nq else 1
    if mode == "base":
        return 1 + len(k["extra"])
    return 1 + sum(n - 1 for n in ne + nq) + len(k["extra"])


def choose_inis(k, seed, budget, nrandom, force=None):
    """Exhaustive over all entity/permutation vectors when steps x vectors fits the budget; otherwise one axis at
    a time plus seeded random combinations; for very long kernels the first vector plus as many random ones as fit."""
    k["extra"] = []
    rnd = random.Random(f"ini-{seed}-{k['name']}")

    def rand_combo():
        return {"e": [rnd.choice(v) for v in k["valid"]["e"]], "q": [rnd.choice(v) for v in k["valid"]["q"]]}
    steps = k["steps"] or 1
    has = bool(k["valid"]["e"])
    if force == "base":
        k["inimode"] = "base"
        k["extra"] = [rand_combo() for _ in range(nrandom)] if has else []
    elif steps * n_inis(k, "all") <= budget:
        k["inimode"] = "all"
    elif steps * (n_inis(k, "axes") + nrandom) <= budget:
        k["inimode"] = "axes"
        k["extra"] = [rand_combo() for _ in range(nrandom)]
    else:
        k["inimode"] = "base"
        k["extra"] = [rand_combo() for _ in range(max(0, min(nrandom, budget // steps - 1)))] if has else []
    return n_inis(k, k["inimode"])


def _split(items, weights, n):
    bins = [[] for _ in range(n)]
    load = [0] * n
    for w, it in sorted(zip(weights, items), key=lambda t: -t[0]):
        j = load.index(min(load))
        bins[j].append(it)
        load[j] += w
    return [b for b in bins if b]


_TLC_FIELDS = ("name", "itype", "entity", "ext", "enabled", "woff", "coff", "valid", "inimode", "extra", "runplanes",
               "code", "planes")


def _tlc_kernel(k):
    return {f: k[f] for f in _TLC_FIELDS}


def _parse_printed(printed, tag):
    out = []
    for s in printed:
        if s.startswith(f'<< "{tag}"') or s.startswith(f'<<"{tag}"'):
            try:
                out.append(tlc.parse_tla(s))
            except Exception:  # noqa: BLE001
                out.append([tag, s])
    return out


def _stmt_text(ins):
    def ex(e):
        k = e["k"]
        if k == "lit":
            return str(e["v"])
        if k == "sym":
            return e["n"]
        if k == "acc":
            return e["a"] + "".join(f"[{ex(i)}]" for i in e["i"])
        if k == "mi":
            return ex(e["g"])
        if k == "fn":
            return f"{e['fname']}({', '.join(ex(x) for x in e['x'])})"
        if k in ("neg", "not"):
            return ("-" if k == "neg" else "!") + f"({ex(e['x'][0])})"
        if k == "bin":
            return f"({ex(e['x'][0])} {e['o']} {ex(e['x'][1])})"
        if k == "sum":
            return "(" + " + ".join(ex(x) for x in e["x"]) + ")"
        if k == "prod":
            return "(" + " * ".join(ex(x) for x in e["x"]) + ")"
        if k == "cond":
            return f"({ex(e['x'][0])} ? {ex(e['x'][1])} : {ex(e['x'][2])})"
        return "?"
    op = ins["op"]
    if op == "vdecl":
        return f"{ins['t']} {ins['sym']} = {ex(ins['val']) if ins['val']['k'] != 'none' else ''};"
    if op == "adecl":
        return f"{'static ' if ins['static'] else ''}{'const ' if ins['const'] else ''}{ins['t']} {ins['sym']}{ins['dims']} = <{ins['init']}>;"
    if op in ("assign", "aadd"):
        return f"{ex(ins['lhs'])} {'=' if op == 'assign' else '+='} {ex(ins['rhs'])};"
    if op == "loop":
        return f"for (int {ins['i']} = {ex(ins['b'])}; {ins['i']} < {ex(ins['e'])}; ++{ins['i']})"
    return op


def run_kernels(chk, kernels, invariants, label, max_violations=6):
    """Kernel.tla on `kernels` (each already has inimode/extra/runplanes) with `invariants` as TLC INVARIANTs."""
    if not kernels:
        return {"states": 0, "runs": 0}
    cfg = "INIT Init\nNEXT Next\nINVARIANTS " + " ".join(invariants) + " Finished\nALIAS Brief\n"
    by_name = {k["name"]: k for k in kernels}
    stats = {"states": 0, "generated": 0, "runs": 0, "dz_runs": 0, "tlc_runs": 0, "wall": 0.0}
    lock = threading.Lock()
    nviol = [0]

    def one(batch, bi):
        todo = list(batch)
        while todo:
            d = tlc.stage(f"s4-{label}-{bi}", modules=["Kernel"])
            inp = d / "in.json"
            inp.write_text(json.dumps({"kernels": [_tlc_kernel(k) for k in todo]}))
            r = tlc.run(d, "Kernel", cfg_text=cfg, workers=1, env={"S4_INPUT": str(inp)}, timeout=3000, heap="6g", dfs_queue=True, java_opts=["-XX:ParallelGCThreads=2"])
            with lock:
                stats["states"] += r.distinct
                stats["generated"] += r.generated
                stats["tlc_runs"] += 1
                stats["wall"] += r.wall_s
                done = _parse_printed(r.printed, "DONE")
                stats["runs"] += len(done)
                stats["dz_runs"] += sum(1 for x in done if x[-1] is True)
            if r.ok:
                return
            if r.violated in invariants:
                viol = _parse_printed(r.printed, "VIOL")
                if not viol:
                    raise MachineryError(f"TLC reported {r.violated} without a VIOL line:\n" + r.out[-2000:])
                _, inv, kname, pc, ini, pl, acc = viol[-1][:7]
                k = by_name[kname]
                ins = k["code"][pc - 2] if pc >= 2 else {}
                key = f"{chk.pid}:{inv}:{k['label']}" + (f"@{k['variant']}" if k["variant"] != "full" else "") + f":{acc.get('a')}"
                what = (f"{inv} violated by kernel {k['label']} ({k['itype']}, symbol {k.get('sym')}) at statement "
                        f"`{_stmt_text(ins)}` with entity_local_index={ini.get('e')} quadrature_permutation={ini.get('q')}: "
                        f"access {acc.get('a')}{list(acc.get('s', []))} kind={acc.get('k')} flat={acc.get('f')} "
                        f"declared shape {list(acc.get('dims', []))}")
                with lock:
                    chk.violation(key, what, {"engine": "S4", "invariant": inv, "entry": k["entry"], "kernel": k["label"],
                                              "variant": k["variant"], "pc": pc - 1, "instruction": ins, "ini": ini,
                                              "plane": pl, "access": acc, "ext": k["ext"], "trace_tail": r.error_trace[-40:]})
                    nviol[0] += 1
                    if nviol[0] >= max_violations:
                        chk.note(f"{label}: stopped after {nviol[0]} violations; remaining kernels of this batch not examined")
                        return
                todo = [x for x in todo if x["name"] != kname]
                continue
            tlc.must_ok(r, f"Kernel.tla {label} batch {bi}")
            raise MachineryError(f"Kernel.tla {label}: unexpected TLC result {r.violated}:\n" + r.out[-2000:])

    weights = [max(1, (k["steps"] or 1) * n_inis(k, k["inimode"]) * len(k["runplanes"])) for k in kernels]
    batches = _split(kernels, weights, NPROC)
    with cf.ThreadPoolExecutor(max_workers=NPROC) as ex:
        for f in [ex.submit(one, b, i) for i, b in enumerate(batches)]:
            f.result()
    chk.add(states=stats["states"], transitions=stats["generated"])
    return stats


def run_pairs(chk, kernels, pairs, invariants, label, key_prefix, max_violations=6):
    """KernelPair.tla.  pairs refer to kernels by name; split by pair into parallel TLC runs."""
    if not pairs:
        return {"states": 0, "pairs": 0}
    cfg = ("INIT Init\nNEXT Next\nINVARIANTS " + " ".join(invariants) + " Finished\nALIAS Brief\n")
    by_name = {k["name"]: k for k in kernels}
    stats = {"states": 0, "generated": 0, "pairs_done": 0, "dz": 0, "tlc_runs": 0}
    lock = threading.Lock()
    nviol = [0]

    def one(batch, bi):
        todo = list(batch)
        while todo:
            if nviol[0] >= max_violations:
                return
            names = []
            for p in todo:
                for n in (p["a"], p["b"]):
                    if n not in names:
                        names.append(n)
            idx = {n: i + 1 for i, n in enumerate(names)}
            doc = {"kernels": [_tlc_kernel(by_name[n]) for n in names],
                   "pairs": [{"mode": p["mode"], "a": idx[p["a"]], "b": idx[p["b"]], "pa": p["pa"], "pb": p["pb"],
                              "inimode": p["inimode"], "extra": p.get("extra", by_name[p["a"]]["extra"])} for p in todo]}
            d = tlc.stage(f"s4p-{label}-{bi}", modules=["Kernel", "KernelPair"])
            inp = d / "in.json"
            inp.write_text(json.dumps(doc))
            r = tlc.run(d, "KernelPair", cfg_text=cfg, workers=1, env={"S4_INPUT": str(inp)}, timeout=3000, heap="6g", dfs_queue=True, java_opts=["-XX:ParallelGCThreads=2"])
            with lock:
                stats["states"] += r.distinct
                stats["generated"] += r.generated
                stats["tlc_runs"] += 1
                fin = _parse_printed(r.printed, "PAIR")
                stats["pairs_done"] += len(fin)
                stats["dz"] += sum(1 for x in fin if x[-1] == "dz")
            if r.ok:
                return
            if r.violated in invariants:
                pv = _parse_printed(r.printed, "PVIOL")
                if not pv:
                    raise MachineryError(f"TLC reported {r.violated} without a PVIOL line:\n" + r.out[-2000:])
                v = pv[-1]
                what_inv, mode, ka = v[1], v[2], v[3]
                kb = v[4] if what_inv != "PairClean" else ka
                k = by_name[ka]
                other = by_name.get(kb, k) if isinstance(kb, str) else k
                key = f"{key_prefix}:{what_inv}:{mode}:{k['label']}" + (f"@{k['variant']}" if k["variant"] != "full" else "") + (
                    f"|{other['variant']}" if mode == "equiv" else "")
                what = (f"{what_inv} ({mode}) violated for kernel {k['label']}"
                        + (f": program variant '{k['variant']}' and the optimised program differ in the final A" if what_inv == "Equivalent" else "")
                        + f"; TLC says {v[5:]}")
                with lock:
                    chk.violation(key, what, {"engine": "S4", "invariant": what_inv, "mode": mode, "entry": k["entry"],
                                              "kernel": k["label"], "a": ka, "b": kb, "detail": v[5:],
                                              "trace_tail": r.error_trace[-30:]})
                    nviol[0] += 1
                    if nviol[0] >= max_violations:
                        chk.note(f"{label}: stopped after {nviol[0]} violations; remaining pairs not examined")
                        return
                # every pair of this kernel (all variants, all planes) is dropped: one verdict per kernel
                todo = [p for p in todo if by_name[p["a"]]["label"] != k["label"]]
                continue
            tlc.must_ok(r, f"KernelPair.tla {label} batch {bi}")
            raise MachineryError(f"KernelPair.tla {label}: unexpected TLC result {r.violated}:\n" + r.out[-2000:])

    weights = [max(1, (by_name[p["a"]]["steps"] or 1) * 2 * (1 + len(p.get("extra", by_name[p["a"]]["extra"])))) for p in pairs]
    with cf.ThreadPoolExecutor(max_workers=NPROC) as ex:
        for f in [ex.submit(one, b, i) for i, b in enumerate(_split(pairs, weights, NPROC))]:
            f.result()
    chk.add(states=stats["states"], transitions=stats["generated"])
    return stats


def corruption_control(chk, kernels, what, invariants, expect):
    """Cheap binding control: corrupt ONE field of one recorded kernel; TLC must reject it with invariant `expect`."""
    import copy  # noqa: PLC0415

    cands = sorted((k for k in kernels if k["variant"] == "full" and (k["steps"] or 0) < 3000), key=lambda k: k["steps"])
    for k in cands:
        kk = copy.deepcopy(k)
        code = kk["code"]
        done = False
        if what == "loop-bound+1":                       # the innermost loop runs one iteration too many
            for ins in reversed(code):
                if ins["op"] == "loop" and ins["e"]["k"] == "lit":
                    ins["e"]["v"] += 1
                    done = True
                    break
        elif what == "A-assign":                          # A[..] += e  becomes  A[..] = e
            for ins in code:
                if ins["op"] == "aadd" and ins["lhs"].get("a") == "A":
                    ins["op"] = "assign"
                    done = True
                    break
        elif what == "duplicate-declaration":             # a scalar declared twice in one scope
            for i, ins in enumerate(code):
                if ins["op"] == "vdecl":
                    code.insert(i + 1, copy.deepcopy(ins))
                    for j in code:                        # keep jump targets consistent
                        if j["op"] == "loop" and j["end"] > i + 1:
                            j["end"] += 1
                        if j["op"] == "endloop" and j["start"] > i + 1:
                            j["start"] += 1
                    done = True
                    break
        elif what == "use-before-declaration":            # a symbol read that no open scope declares
            for ins in code:
                if ins["op"] == "vdecl" and ins["val"]["k"] != "none":
                    ins["val"] = {"k": "sym", "t": ins["t"], "n": "s4_undeclared"}
                    done = True
                    break
        if not done:
            continue
        kk["inimode"], kk["extra"], kk["runplanes"] = "base", [], [1]
        d = tlc.stage(f"s4-control-{what}", modules=["Kernel"])
        inp = d / "in.json"
        inp.write_text(json.dumps({"kernels": [_tlc_kernel(kk)]}))
        cfg = "INIT Init\nNEXT Next\nINVARIANTS " + " ".join(invariants) + "\nALIAS Brief\n"
        r = tlc.run(d, "Kernel", cfg_text=cfg, workers=1, env={"S4_INPUT": str(inp)}, dfs_queue=True, timeout=600)
        if r.violated != expect:
            raise MachineryError(f"binding control '{what}' on {k['label']} was not rejected by {expect} (TLC: {r.violated}) - the check is vacuous")
        chk.add(controls_rejected=[f"{what} on {k['label']} -> {expect}"])
        return
    chk.add(controls_not_applicable=[what])


def flags_control(chk, kernels):
    """All enabled flags cleared on a kernel that reads w: ReadsOnlyEnabled must reject."""
    import copy  # noqa: PLC0415

    for k in sorted((k for k in kernels if k["ext"]["w"] > 0 and any(k["enabled"]) and (k["steps"] or 0) < 3000), key=lambda k: k["steps"]):
        kk = copy.deepcopy(k)
        kk["enabled"] = [False] * len(kk["enabled"])
        kk["inimode"], kk["extra"], kk["runplanes"] = "base", [], [1]
        d = tlc.stage("s4-control-flags", modules=["Kernel"])
        inp = d / "in.json"
        inp.write_text(json.dumps({"kernels": [_tlc_kernel(kk)]}))
        r = tlc.run(d, "Kernel", cfg_text="INIT Init\nNEXT Next\nINVARIANTS ReadsOnlyEnabled\nALIAS Brief\n", workers=1,
                    env={"S4_INPUT": str(inp)}, dfs_queue=True, timeout=600)
        if r.violated != "ReadsOnlyEnabled":
            raise MachineryError(f"binding control 'flags cleared' on {k['label']} was not rejected (TLC: {r.violated})")
        chk.add(controls_rejected=[f"enabled flags cleared on {k['label']} -> ReadsOnlyEnabled"])
        return


def pair_control(chk, kernels, pairs):
    """One literal of the unoptimised program changed: Equivalent must reject the pair."""
    import copy  # noqa: PLC0415

    by = {k["name"]: k for k in kernels}

    def bump(e):
        if isinstance(e, dict):
            if e.get("k") == "lit" and e.get("t") in ("R", "S"):
                e["v"] = (e["v"] + 1) % P
                return True
            return any(bump(v) for v in e.values() if isinstance(v, dict | list))
        if isinstance(e, list):
            return any(bump(v) for v in e)
        return False
    for p in sorted((p for p in pairs if p["mode"] == "equiv" and (by[p["a"]]["steps"] or 0) < 2500), key=lambda p: by[p["a"]]["steps"]):
        ka, kb = copy.deepcopy(by[p["a"]]), copy.deepcopy(by[p["b"]])
        hit = False
        for ins in ka["code"]:
            if ins["op"] in ("vdecl",) and ins["val"]["k"] != "none" and bump(ins["val"]):
                hit = True
                break
        if not hit:
            continue
        ka["name"] = ka["name"] + "#corrupted"
        doc = {"kernels": [_tlc_kernel(ka), _tlc_kernel(kb)],
               "pairs": [{"mode": "equiv", "a": 1, "b": 2, "pa": 1, "pb": 1, "inimode": "base", "extra": []}]}
        d = tlc.stage("s4-control-pair", modules=["Kernel", "KernelPair"])
        inp = d / "in.json"
        inp.write_text(json.dumps(doc))
        r = tlc.run(d, "KernelPair", cfg_text="INIT Init\nNEXT Next\nINVARIANTS Equivalent PairClean\nALIAS Brief\n", workers=1,
                    env={"S4_INPUT": str(inp)}, dfs_queue=True, timeout=600)
        if r.violated == "Equivalent":
            chk.add(controls_rejected=[f"one literal changed in {by[p['a']]['name']} -> Equivalent"])
            return
        # a literal that does not reach A (e.g. multiplied by zero) - try the next kernel
    chk.add(controls_not_applicable=["pair literal"])


# ---------------------------------------------------------------------------------------------
def _tier_cfg(chk):
    quick = chk.tier == "quick"
    return {"quick": quick, "max_steps": 20000 if quick else 250000, "budget_all": 25000 if quick else 600000,
            "nrandom": 2 if quick else 8, "entries": kcorpus.names(chk.tier),
            "demos": [] if quick else kcorpus.demo_files()}


def _select(chk, kernels, max_steps, variant="full"):
    sel, skipped = [], 0
    for k in kernels:
        if k["variant"] != variant:
            continue
        if k["steps"] is None:
            raise MachineryError(f"kernel {k['name']} has a non-literal loop bound")
        if k["steps"] > max_steps:
            skipped += 1
            continue
        sel.append(k)
    if skipped:
        chk.add(kernels_skipped_too_long=skipped)
    return sel


def _report_build_errors(chk, errors, where):
    """A corpus (= supported) form that the real pipeline could not compile.  Only C19 judges it; the other
    checks cannot run the kernel and say so."""
    for e in errors:
        if chk.pid == "C19":
            key = f"C19:{'cc-fail' if e['phase'] == 'cc' else 'rejected-supported'}:{e['entry']}"
            chk.violation(key, f"corpus form {e['entry']} ({where}) did not yield a compiled module: "
                               f"{e['phase']} phase, {e['type']}: {e['msg'][-400:]}", e)
        else:
            chk.note(f"{e['entry']}: not executed, the real pipeline failed ({e['phase']}: {e['type']}) - judged by C19")
            chk.add(entries_not_built=1)


def _samples(kernels, n=6):
    return [f"{k['label']} ({k['itype']}, {k['steps']} steps, A{k['ext']['A']}, inis={k.get('inimode')})" for k in kernels[:n]]


# ============================================================================================= C08
def run_c08(chk):
    cfgt = _tier_cfg(chk)
    kernels, errors, bst = build(chk, cfgt["entries"], demos=cfgt["demos"], compile=not cfgt["quick"], nplanes=1)
    _report_build_errors(chk, errors, "C08 corpus")
    sel = _select(chk, kernels, cfgt["max_steps"])
    nin = 0
    for k in sel:
        k["runplanes"] = [1]
        nin += choose_inis(k, chk.seed, cfgt["budget_all"], cfgt["nrandom"])
    st = run_kernels(chk, sel, ["NoDeref", "InBounds"], "c08")
    corruption_control(chk, sel, "loop-bound+1", ["NoDeref", "InBounds"], "InBounds")
    naccess = sum(sum(1 for ins in k["code"] if ins["op"] in ("assign", "aadd", "vdecl")) for k in sel)
    chk.add(traces_validated_against_impl=len(sel), evaluations=st["runs"], distinct_nontrivial=st["runs"],
            kernels=len(sel), entity_permutation_vectors=nin, statements_with_accesses=naccess,
            rule="one case = one real generated kernel (LNodes AST of a corpus form, exported after generation by the unmodified "
                 "IntegralGenerator/ExpressionGenerator) executed to completion by TLC for one valid (entity_local_index, "
                 "quadrature_permutation) vector; every statement instance is one TLC state on which InBounds and NoDeref are "
                 "evaluated. Extents come from UFL/basix (element dims, constant sizes, 3 x nodes, x2 interior facets). "
                 "Exhaustive over all vectors when steps x vectors <= budget, else axis-wise + seeded random vectors. "
                 "Non-trivial = the run reached the end of the kernel.",
            samples=_samples(sel), build=bst, exhaustive_kernels=sum(1 for k in sel if k["inimode"] == "all"),
            axiswise_kernels=sum(1 for k in sel if k["inimode"] == "axes"))
    chk.assumptions += ["C16 (S6) ties the executed AST to the C text gcc compiles", "UFL form data and basix element dimensions are trusted for the extents",
                        "ufcx.h contract: quadrature_permutation has 2 entries for interior facets, 1 for expressions at facet points, none otherwise"]
    if not cfgt["quick"]:
        realc_guard(chk, [k for k in sel if k["so"] and k["scalar"] == "float64"])


# ============================================================================================= C07
def run_c07(chk):
    cfgt = _tier_cfg(chk)
    kernels, errors, bst = build(chk, cfgt["entries"], demos=cfgt["demos"], compile=True, nplanes=2)
    _report_build_errors(chk, errors, "C07 corpus")
    sel = _select(chk, kernels, cfgt["max_steps"])
    for k in sel:
        k["runplanes"] = [2]                       # random A0
        choose_inis(k, chk.seed, 0, 0 if cfgt["quick"] else (3 if k["steps"] < 50000 else 1), force="base")
    st = run_kernels(chk, sel, ["WriteDiscipline", "NoUninitialisedRead"], "c07")
    corruption_control(chk, sel, "A-assign", ["WriteDiscipline", "NoUninitialisedRead"], "WriteDiscipline")
    # value level: Additive and Repeatable on the machine
    lim = 2500 if cfgt["quick"] else 30000
    small = [k for k in sel if k["steps"] <= lim]
    pairs = []
    for k in small:
        pairs.append({"mode": "additive", "a": k["name"], "b": k["name"], "pa": 1, "pb": 2, "inimode": "base"})
        pairs.append({"mode": "repeat", "a": k["name"], "b": k["name"], "pa": 2, "pb": 2, "inimode": "base"})
        if not cfgt["quick"]:
            pairs.append({"mode": "additive", "a": k["name"], "b": k["name"], "pa": 3, "pb": 4, "inimode": "base"})
    ps = run_pairs(chk, small, pairs, ["Additive", "Repeatable", "PairClean"], "c07", "C07")
    ts = threads_model(chk)
    # a kernel that touches memory outside its arrays changes more than A (and would corrupt this process when it
    # is called here): the guard-page pass runs first, in a child, and the kernels that died there are not loaded
    realk = [k for k in sel if k["so"] and k["scalar"] == "float64"]
    died: list = []
    _protected(chk, realk, "guard", died)
    rc = realc_purity(chk, [k for k in realk if k["name"] not in died])
    chk.add(traces_validated_against_impl=len(sel) + rc["kernels"], evaluations=st["runs"] + ps["pairs_done"] + rc["calls"],
            distinct_nontrivial=st["runs"] + ps["pairs_done"], kernels=len(sel), pair_runs=ps["pairs_done"],
            pair_runs_outside_value_model=ps["dz"], threads_model=ts, real_c=rc, build=bst,
            rule="one case = one real generated kernel executed to completion by TLC (WriteDiscipline and NoUninitialisedRead "
                 "evaluated on every statement instance; static/const flags parsed from the C text the real formatter printed), "
                 "or one lock-step pair of executions (A0 = 0 vs random A0: Additive; two runs in sequence: Repeatable). "
                 "Non-trivial = the run reached the end of the kernel inside the value model (no zero denominator in Z_p).",
            samples=_samples(sel))
    chk.assumptions += ["values are residues mod 46337; math functions uninterpreted; a structural dependence on A0 survives with probability > 1 - 1e-3 per plane",
                        "real C: rounding bound 4 n u (|A0| + kappa |T|max) with kappa = 1e4 (cancellation ratio of the kernel's own summation)"]


# ============================================================================================= C05 half
def run_reads(chk):
    cfgt = _tier_cfg(chk)
    names = [n for n in cfgt["entries"] if n in READS_ENTRIES or not cfgt["quick"]]
    kernels, errors, bst = build(chk, names, demos=cfgt["demos"], compile=True, nplanes=3)
    _report_build_errors(chk, errors, "C05 corpus")
    sel = [k for k in _select(chk, kernels, cfgt["max_steps"]) if k["ext"]["w"] > 0 or k["ext"]["c"] > 0]
    for k in sel:
        k["runplanes"] = [1]
        choose_inis(k, chk.seed, 0, 1 if cfgt["quick"] else 3, force="base")
    st = run_kernels(chk, sel, ["ReadsOnlyEnabled"], "c05")
    flags_control(chk, sel)
    dis = [k for k in sel if not all(k["enabled"]) and k["steps"] <= (6000 if cfgt["quick"] else 60000)]
    pairs = [{"mode": "disabled", "a": k["name"], "b": k["name"], "pa": p, "pb": p, "inimode": "base"}
             for k in dis for p in ((1,) if cfgt["quick"] else (1, 3, 5))]
    ps = run_pairs(chk, dis, pairs, ["DisabledIrrelevant"], "c05", "C05")
    rc = realc_poison(chk, [k for k in sel if k["so"] and k["scalar"] == "float64" and not all(k["enabled"])])
    chk.add(traces_validated_against_impl=len(sel), evaluations=st["runs"] + ps["pairs_done"] + rc["calls"],
            distinct_nontrivial=st["runs"] + ps["pairs_done"], reads_kernels=len(sel),
            kernels_with_disabled_coefficient=len(dis), disabled_pair_runs=ps["pairs_done"], real_c_poison=rc, reads_build=bst,
            reads_rule="S4 half: every read of w[i] by every statement instance of every real kernel lies inside a coefficient whose "
                       "enabled_coefficients flag (read from the COMPILED ufcx_integral) is true; coefficient ranges from UFL form data; "
                       "two data planes differing exactly on the disabled cells give the same A.",
            reads_samples=_samples(sel))
    return {"kernels": len(sel), "disabled": len(dis)}


READS_ENTRIES = {"coefficient_dropout", "all_types_triangle", "poisson_p2_triangle", "facets_p2_triangle_coeff", "multi_degree",
                 "tensor_constants", "hdiv_rt_triangle", "expr_interval_two_coefficients", "facets_p1_interval", "vertex_p1",
                 "expr_grad_coefficient", "nonlinear_math"}


# ============================================================================================= C17 half
def differing_vectors(k, seed, plane):
    """Entity / permutation vectors for the optimiser pair runs.  For interior facets the two sides must DIFFER
    (with equal values the '+' and '-' table accesses coincide and two programs can agree by accident):
    plane 1 gets (0,1),(1,2),(2,0) x permutation codes (0,1),(1,0),(last,0); the other planes one seeded random
    vector with e0 != e1 (and q0 != q1 where there is more than one code) each."""
    ve, vq = k["valid"]["e"], k["valid"]["q"]
    if not ve:
        return [{"e": [], "q": []}]
    rnd = random.Random(f"optini-{seed}-{k['label']}-{plane}")
    if len(ve) == 1:
        vals = ve[0]
        qs = [vq[0][0]] if vq else []
        if plane == 1:
            picks = sorted({vals[0], vals[-1], vals[len(vals) // 2]})
            return [{"e": [x], "q": ([vq[0][i % len(vq[0])]] if vq else [])} for i, x in enumerate(picks)]
        return [{"e": [rnd.choice(vals)], "q": ([rnd.choice(vq[0])] if vq else qs)}]
    n, m = len(ve[0]), len(vq[0]) if vq else 1

    def qpair(a, b):
        return [vq[0][a % m], vq[1][b % m]] if vq else []
    if plane == 1:
        return [{"e": [ve[0][0], ve[1][1 % n]], "q": qpair(0, 1)},
                {"e": [ve[0][1 % n], ve[1][2 % n]], "q": qpair(1, 0)},
                {"e": [ve[0][2 % n], ve[1][0]], "q": qpair(m - 1, 0)}]
    e0 = rnd.randrange(n)
    e1 = (e0 + 1 + rnd.randrange(n - 1)) % n if n > 1 else e0
    q0 = rnd.randrange(m)
    q1 = (q0 + 1 + rnd.randrange(m - 1)) % m if m > 1 else q0
    return [{"e": [ve[0][e0], ve[1][e1]], "q": qpair(q0, q1)}]


OPT_ENTRIES_QUICK = ["poisson_p2_triangle", "elasticity_vp1_triangle", "hdiv_rt_triangle", "facets_dg1_triangle",
                     "facets_p2_triangle_coeff", "all_types_triangle", "coefficient_dropout", "tensor_constants", "multi_degree", "same_size_rules",
                     "diagonal_part", "nonlinear_math", "hyperelastic_small", "facets_p1_tetrahedron",
                     "q2_quadrilateral_sumfact", "poisson_p1_tetrahedron", "hcurl_n1_triangle",
                     "dS_bilinear_triangle", "dS_bilinear_tetrahedron", "dS_bilinear_quadrilateral", "q1_quadrilateral_sumfact_bilinear",
                     "facets_p1_interval", "facets_q1_quadrilateral", "expr_with_argument", "expr_facet_points"]


def run_optimizer(chk):
    cfgt = _tier_cfg(chk)
    names = [n for n in cfgt["entries"] if not cfgt["quick"] or n in OPT_ENTRIES_QUICK]
    variants = ("full", "none", "sections", "loops", "licm")
    kernels, errors, bst = build(chk, names, variants=variants, record_calls=True, demos=cfgt["demos"], nplanes=3)
    _report_build_errors(chk, errors, "C17 corpus")
    lim = 3000 if cfgt["quick"] else 40000
    full = {k["label"]: k for k in kernels if k["variant"] == "full"}
    pairs, used = [], {}
    nplanes = (1, 3, 5)                           # three independent seeds of input data (A0 = 0 planes)
    seen_code, identical, by_label = {}, 0, {}
    for k in kernels:
        if k["variant"] == "full" or k["label"] not in full:
            continue
        f = full[k["label"]]
        if max(k["steps"] or 0, f["steps"] or 0) > lim:
            chk.add(optimizer_kernels_skipped_too_long=1)
            continue
        h = json.dumps(k["code"], sort_keys=True)
        if h == json.dumps(f["code"], sort_keys=True) or (k["label"], h) in seen_code:
            identical += 1                 # the same program as the optimised one / as a variant already paired
            continue
        seen_code[(k["label"], h)] = k["variant"]
        for kk in (k, f):
            if kk["name"] not in used:
                kk["inimode"], kk["extra"], kk["runplanes"] = "list", [], [1]
                used[kk["name"]] = kk
        for p in nplanes:
            vecs = differing_vectors(f, chk.seed, p)
            if cfgt["quick"] and k["variant"] in ("sections", "loops"):
                if p != 1:
                    continue               # quick tier: the two fusion passes alone run on one plane, one (differing) vector
                vecs = vecs[:1]
            pairs.append({"mode": "equiv", "a": k["name"], "b": f["name"], "pa": p, "pb": p, "inimode": "list", "extra": vecs})
        by_label.setdefault(k["label"], {})[k["variant"]] = k
    # `no pass` against `licm alone` directly, for the kernels where licm did something
    for lab, vs in by_label.items():
        if "none" in vs and "licm" in vs and (not cfgt["quick"] or full[lab]["itype"] == "interior_facet"):
            pairs.append({"mode": "equiv", "a": vs["none"]["name"], "b": vs["licm"]["name"], "pa": 1, "pb": 1, "inimode": "list",
                          "extra": differing_vectors(full[lab], chk.seed, 1)})
    n_expr = sum(1 for k in kernels if k["variant"] == "full" and k["itype"] == "expression")
    n_dS2 = sum(1 for k in used.values() if k["variant"] == "full" and k["itype"] == "interior_facet" and len(k["ext"]["A"]) == 2)
    ps = run_pairs(chk, list(used.values()), pairs, ["Equivalent", "PairClean"], "c17", "C17")
    pair_control(chk, list(used.values()), pairs)
    differing = sum(1 for k in used.values() if k["variant"] != "full" and
                    json.dumps(k["code"]) != json.dumps(full[k["label"]]["code"]))
    chk.add(optimizer_pairs=ps["pairs_done"], optimizer_pairs_outside_value_model=ps["dz"], optimizer_calls_recorded=bst["opt_calls"],
            optimizer_kernels=len([k for k in used.values() if k["variant"] == "full"]), optimizer_variants_differing=differing,
            optimizer_states=ps["states"], optimizer_build=bst, optimizer_half="run", optimizer_variants_identical_to_another=identical,
            optimizer_bilinear_interior_facet_kernels=n_dS2, optimizer_expression_kernels_without_optimize_call=n_expr,
            optimizer_vectors="interior facets: (0,1),(1,2),(2,0) x codes (0,1),(1,0),(last,0) on plane 1, one seeded random vector "
                              "with differing sides on each other plane; `no pass` vs `licm alone` also compared directly",
            optimizer_rule="for every corpus kernel the real generators are run with optimizer.optimize replaced by: nothing, "
                           "fuse_sections only, fuse_loops only, licm only (the unoptimised statement lists are the recorded inputs of "
                           "every optimize call); each variant and the fully optimised kernel run in lock step on the same three "
                           "seeded inputs in Z_p: identical final A, no uninitialised read, scope discipline on both.",
            traces_validated_against_impl=len(used), evaluations=ps["pairs_done"], distinct_nontrivial=differing * len(nplanes))
    return ps


# ============================================================================================= threads model
def threads_model(chk):
    quick = chk.tier == "quick"
    out = {}
    runs = [("main", 2 if quick else 3, False, not quick)]
    runs.append(("control", 2, True, False))
    for name, maxlen, mut, rich in runs:
        cfg = (f"CONSTANTS MaxLen = {maxlen} MutableStatic = {'TRUE' if mut else 'FALSE'} Rich = {'TRUE' if rich else 'FALSE'}\n"
               "INIT Init\nNEXT Next\nINVARIANT SameAsSequential\n")
        d = tlc.stage(f"s4-threads-{name}", modules=["KernelThreads"])
        r = tlc.run(d, "KernelThreads", cfg_text=cfg, workers=2, timeout=1500)
        out[name] = r.summary()
        if name == "main":
            chk.add(states=r.distinct, transitions=r.generated)
            if r.violated == "SameAsSequential":
                raise MachineryError("KernelThreads.tla: the commutation argument itself fails - specification error")
            tlc.must_ok(r, "KernelThreads main")
            if not r.ok:
                raise MachineryError("KernelThreads main did not finish:\n" + r.out[-1500:])
        else:
            if r.violated != "SameAsSequential":
                raise MachineryError("KernelThreads control (mutable static) was not rejected by TLC - vacuous model")
            out["control_rejected"] = True
    return out


# ============================================================================================= real C
def _load(k):
    lib = ctypes.CDLL(k["so"])
    fn = getattr(lib, k["sym"])
    fn.restype = None
    fn.argtypes = [ctypes.c_void_p] * 7
    return fn


def _real_inputs(k, seed, tag=""):
    r = random.Random(f"realc-{seed}-{k['name']}-{tag}")
    ext = k["ext"]
    na = int(np.prod(ext["A"], dtype=int)) if ext["A"] else 1
    return {"w": np.array([r.uniform(-1, 1) for _ in range(ext["w"])], dtype=np.float64),
            "c": np.array([r.uniform(-1, 1) for _ in range(ext["c"])], dtype=np.float64),
            "x": np.array(k["geom"], dtype=np.float64), "na": na}


def _ini_list(k, seed, cap):
    import itertools  # noqa: PLC0415

    ve, vq = k["valid"]["e"], k["valid"]["q"]
    allv = [{"e": list(c[:len(ve)]), "q": list(c[len(ve):])} for c in itertools.product(*(ve + vq))]
    if len(allv) > cap:
        random.Random(f"inis-{seed}-{k['name']}").shuffle(allv)
        allv = allv[:cap]
    return allv


def _call(fn, A, inp, ini):
    e = np.array(ini["e"] or [0], dtype=np.intc)
    q = np.array(ini["q"] or [0], dtype=np.uint8)
    w = inp["w"] if inp["w"].size else np.zeros(1)
    c = inp["c"] if inp["c"].size else np.zeros(1)
    fn(A.ctypes.data, w.ctypes.data, c.ctypes.data, inp["x"].ctypes.data, e.ctypes.data, q.ctypes.data, None)


def realc_purity(chk, kernels):
    """The compiled kernels: 8 threads on disjoint A bit-for-bit equal to sequential calls; random pre-filled A,
    twice (deterministic bit for bit; additive / repeatable within the stated rounding bound); inputs read-only."""
    st = {"kernels": 0, "calls": 0, "thread_calls": 0, "unjudged_rounding": 0, "readonly_calls": 0}
    u = 2.0 ** -53
    for k in kernels:
        fn = _load(k)
        inp = _real_inputs(k, chk.seed)
        na = inp["na"]
        r = random.Random(f"a0-{chk.seed}-{k['name']}")
        for ini in _ini_list(k, chk.seed, 2 if chk.tier == "quick" else 6):
            T = np.zeros(na)
            _call(fn, T, inp, ini)
            if not np.all(np.isfinite(T)):
                chk.add(realc_nonfinite_skipped=1)
                continue
            scale = max(1.0, float(np.max(np.abs(T))))
            A0 = np.array([r.choice((-1, 1)) * (1 + r.random()) * scale for _ in range(na)])
            A1 = A0.copy()
            _call(fn, A1, inp, ini)
            A1b = A0.copy()
            _call(fn, A1b, inp, ini)
            A2 = A1.copy()
            _call(fn, A2, inp, ini)
            st["calls"] += 4
            if A1.tobytes() != A1b.tobytes():
                chk.violation(f"C07:realc:nondeterministic:{k['label']}", f"compiled kernel {k['label']} ({k['sym']}) gave different bits on two calls with identical inputs and identical pre-filled A", {"kernel": k["label"], "ini": ini})
            n = max(1, k["steps"] or 1)
            for name, d, ref in (("additive", (A1 - A0) - T, A0), ("repeatable", (A2 - A1) - (A1 - A0), A1)):
                err = np.abs(d)
                bound = 4 * n * u * (np.abs(ref) + 1e4 * scale)
                gross = 1e-3 * np.abs(ref)
                if np.any(err > gross):
                    i = int(np.argmax(err - gross))
                    chk.violation(f"C07:realc:{name}:{k['label']}",
                                  f"compiled kernel {k['label']} ({k['sym']}): result depends on the previous contents of A "
                                  f"({name}: entry {i}: deviation {err[i]:.3e}, |A0| = {abs(ref[i]):.3e}, T = {T[i]:.3e})",
                                  {"kernel": k["label"], "ini": ini, "entry": i, "A0": float(A0[i]), "T": float(T[i]), "A1": float(A1[i]), "A2": float(A2[i])})
                elif np.any(err > bound):
                    st["unjudged_rounding"] += 1
        # threads: disjoint A, shared inputs
        ini = _ini_list(k, chk.seed, 1)[0]
        nthreads, reps = 8, (25 if chk.tier == "quick" else 300)
        A0s = [np.array([random.Random(f"t{t}-{chk.seed}-{k['name']}").uniform(-2, 2) for _ in range(na)]) for t in range(nthreads)]
        ref = []
        for t in range(nthreads):
            a = A0s[t].copy()
            _call(fn, a, inp, ini)
            ref.append(a.tobytes())
        bad = []
        barrier = threading.Barrier(nthreads)

        def worker(t):
            barrier.wait()
            for _ in range(reps):
                a = A0s[t].copy()
                _call(fn, a, inp, ini)
                if a.tobytes() != ref[t]:
                    bad.append(t)
                    return
        ths = [threading.Thread(target=worker, args=(t,)) for t in range(nthreads)]
        for th in ths:
            th.start()
        for th in ths:
            th.join()
        st["thread_calls"] += nthreads * reps
        st["calls"] += nthreads * (reps + 1)
        if bad:
            chk.violation(f"C07:realc:threads:{k['label']}", f"compiled kernel {k['label']} ({k['sym']}): concurrent calls from 8 threads on disjoint A differ bit-for-bit from sequential calls (threads {sorted(set(bad))})", {"kernel": k["label"], "ini": ini})
        st["kernels"] += 1
    st["readonly_calls"] = _protected(chk, kernels, "ro")
    return st


def _protected(chk, kernels, mode, died=None):
    """Child process: inputs in read-only pages (mode ro) / every buffer against a PROT_NONE page (mode guard).
    A crash of the child is a verdict about the kernel it names, not a machinery failure.
    died: optional list that receives the names of the kernels that crashed."""
    if not kernels:
        return 0
    pid = chk.pid if chk.pid in ("C07", "C08") else ("C07" if mode == "ro" else "C08")
    todo = []
    for k in kernels:
        inp = _real_inputs(k, chk.seed, "prot")
        r = random.Random(f"prot-{chk.seed}-{k['name']}")
        ext = dict(k["ext"])
        todo.append({"id": k["name"], "so": k["so"], "sym": k["sym"], "ext": ext,
                     "data": {"w": list(inp["w"]), "c": list(inp["c"]), "x": list(inp["x"]), "A0": [r.uniform(-1, 1) for _ in range(inp["na"])]},
                     "inis": _ini_list(k, chk.seed, (4 if chk.tier == "quick" else 64) if mode == "ro" else 100000)})
    by = {k["name"]: k for k in kernels}
    calls = 0
    sdir = common.scratch("s4prot")
    rounds = 0
    while todo and rounds < 12:
        rounds += 1
        job, log = sdir / f"job-{mode}-{rounds}.json", sdir / f"log-{mode}-{rounds}.txt"
        job.write_text(json.dumps({"mode": mode, "kernels": todo}))
        if log.exists():
            log.unlink()
        p = subprocess.run([common.PY, "-m", "harness.s4c", str(job), str(log)], cwd=str(common.VERIF), env=common.child_env(),
                           capture_output=True, text=True, timeout=3000)
        lines = log.read_text().splitlines() if log.exists() else []
        calls += sum(1 for ln in lines if ln.startswith("E "))
        if p.returncode == 0 and lines and lines[-1] == "DONE":
            break
        begun = [ln for ln in lines if ln.startswith("B ")]
        ended = {ln[2:] for ln in lines if ln.startswith("E ")}
        open_calls = [ln for ln in begun if ln[2:] not in ended]
        if p.returncode >= 0 or not open_calls:
            raise MachineryError(f"protected-memory child failed without a kernel call in flight (rc={p.returncode}):\n{p.stderr[-1500:]}")
        _, kid, md, ps, ii = open_calls[-1].split(" ")
        k = by[kid]
        ini = next(t for t in todo if t["id"] == kid)["inis"][int(ii)]
        what = ("wrote to one of its inputs (w, c, coordinate_dofs, entity_local_index, quadrature_permutation live in PROT_READ pages)"
                if mode == "ro" else
                f"accessed memory outside the UFCx extents (every buffer placed at the {'end' if ps == 'end' else 'start'} of its mapping next to a PROT_NONE page; absent arrays are NULL)")
        chk.violation(f"{pid}:realc:{'input-write' if mode == 'ro' else 'guard-page'}:{k['label']}",
                      f"compiled kernel {k['label']} ({k['sym']}) died with signal {-p.returncode}: it {what}; "
                      f"entity_local_index={ini['e']} quadrature_permutation={ini['q']}",
                      {"kernel": k["label"], "entry": k["entry"], "signal": -p.returncode, "mode": mode, "pass": ps, "ini": ini, "ext": k["ext"]})
        if died is not None:
            died.append(kid)
        todo = [t for t in todo[[t["id"] for t in todo].index(kid) + 1:]]
    return calls


def realc_guard(chk, kernels):
    calls = _protected(chk, kernels, "guard")
    chk.add(guard_page_calls=calls, guard_page_kernels=len(kernels))


def realc_poison(chk, kernels):
    """The compiled kernel with the cells of disabled coefficients NaN-poisoned gives bit-identical A."""
    st = {"kernels": 0, "calls": 0}
    for k in kernels:
        fn = _load(k)
        inp = _real_inputs(k, chk.seed, "poison")
        na = inp["na"]
        pois = dict(inp)
        w2 = inp["w"].copy()
        for (lo, hi), en in zip(k["woff"], k["enabled"]):
            if not en:
                w2[lo:hi] = np.nan
        pois["w"] = w2
        for ini in _ini_list(k, chk.seed, 2 if chk.tier == "quick" else 8):
            a, b = np.zeros(na), np.zeros(na)
            _call(fn, a, inp, ini)
            _call(fn, b, pois, ini)
            st["calls"] += 2
            if a.tobytes() != b.tobytes():
                i = int(np.argmax(a != b))
                chk.violation(f"C05:realc:poison:{k['label']}", f"compiled kernel {k['label']} ({k['sym']}) changes its result when the storage of coefficients with enabled_coefficients = false is NaN (entry {i}: {a[i]} vs {b[i]})", {"kernel": k["label"], "ini": ini, "enabled": k["enabled"], "woff": k["woff"]})
        st["kernels"] += 1
    return st


# ============================================================================================= replay
def replay(chk, path, runner):
    """Re-execute exactly the corpus entry of a recorded violation."""
    doc = json.loads(Path(path).read_text())
    entry = (doc.get("payload") or {}).get("entry")
    if not entry or entry.startswith("demo_") and chk.tier == "quick":
        return runner(chk)
    only = [entry]
    orig = kcorpus.names
    try:
        kcorpus.names = lambda tier: [n for n in orig("thorough") if n in only]
        return runner(chk)
    finally:
        kcorpus.names = orig


# ============================================================================================= C19 (b)
def run_names(chk, werror=True):
    """UniqueNames / ScopeDiscipline on every corpus AST (+ every corpus form compiles with -Wall -Werror) and
    injectivity of quadrature rule -> id on all co-occurring pairs."""
    cfgt = _tier_cfg(chk)
    flags = ("-O0", "-Wall", "-Werror") if werror else ("-O0",)
    kernels, errors, bst = build(chk, cfgt["entries"], demos=cfgt["demos"], compile=werror, cflags=flags, nplanes=1)
    _report_build_errors(chk, errors, "compiled with " + " ".join(flags))
    sel = _select(chk, kernels, cfgt["max_steps"])
    for k in sel:
        k["runplanes"] = [1]
        choose_inis(k, chk.seed, 0, 1, force="base")
    st = run_kernels(chk, sel, ["ScopeDiscipline", "UniqueNames"], "c19")
    corruption_control(chk, sel, "duplicate-declaration", ["ScopeDiscipline", "UniqueNames"], "UniqueNames")
    corruption_control(chk, sel, "use-before-declaration", ["ScopeDiscipline", "UniqueNames"], "ScopeDiscipline")
    ndecl = sum(sum(1 for ins in k["code"] if ins["op"] in ("vdecl", "adecl", "loop")) for k in sel)
    rs = rule_ids(chk)
    chk.add(traces_validated_against_impl=len(sel) + rs["rules"], evaluations=st["runs"] + rs["pairs_checked"],
            distinct_nontrivial=st["runs"] + rs["distinct_rules"], kernels=len(sel), declarations=ndecl, rule_ids=rs,
            modules_compiled_Wall_Werror=bst["compiled_modules"], build=bst,
            rule="(b) one case = one real generated kernel executed by TLC with ScopeDiscipline (every identifier resolves to a "
                 "declaration in an open scope and is used as what it was declared) and UniqueNames (no identifier declared twice "
                 "in one scope; blocks as the C formatter prints them) evaluated on every statement instance; plus one case per "
                 "real quadrature rule (cell x degree 0..30 x scheme, the real QuadratureRule.id()) with TLC checking injectivity "
                 "of rule -> id over every co-occurring pair; every clash is realised as a two-integral form and compiled. "
                 "(a) every corpus form is JIT-compiled with -Wall -Werror.",
            samples=_samples(sel, 4) + rs["samples"][:4])
    return st


def _real_rules():
    """Every rule FFCx builds for cell x degree 0..30 x scheme {default, GLL, vertex}, with its REAL id."""
    common.ensure_repo_on_path()
    import hashlib  # noqa: PLC0415

    import basix  # noqa: PLC0415
    import ufl  # noqa: PLC0415
    from ffcx.ir.representationutils import QuadratureRule, create_quadrature_points_and_weights  # noqa: PLC0415

    def dig(a):
        # rule identity up to rounding noise: FFCx itself merges rules whose points and weights are np.allclose
        a = np.ascontiguousarray(np.round(np.asarray(a, dtype=np.float64), 12) + 0.0)
        return hashlib.sha256(repr(a.shape).encode() + a.tobytes()).hexdigest()[:24]

    rules, skipped = [], 0

    def add(cell, scheme, degree, pts, wts, tf=None):
        r = QuadratureRule(np.asarray(pts), np.asarray(wts), tf)
        hash(r)                                    # id() needs the digest computed by __hash__
        rules.append({"cell": cell, "scheme": scheme, "degree": degree, "id": r.id(), "pts": dig(r.points), "wts": dig(r.weights),
                      "n": int(np.asarray(wts).size)})
    for cell in ("interval", "triangle", "quadrilateral", "tetrahedron", "hexahedron", "prism", "pyramid"):
        ucell = ufl.Cell(cell)
        for scheme in ("default", "GLL"):
            for deg in range(31):
                try:
                    pts, wts, _ = create_quadrature_points_and_weights("cell", ucell, deg, scheme, [], False)
                except Exception:  # noqa: BLE001 - scheme not available on this cell / degree
                    skipped += 1
                    continue
                add(cell, scheme, deg, pts[cell], wts[cell])
        if cell in ("quadrilateral", "hexahedron"):
            for deg in range(31):
                pts, wts, tf = create_quadrature_points_and_weights("cell", ucell, deg, "default", [], True)
                add(cell, "default+sumfact", deg, pts[cell], wts[cell], tf[cell])
        # scheme "vertex" exactly as ir/representation.py builds it (the degree is ignored there)
        ct = getattr(basix.CellType, cell)
        vp = basix.cell.geometry(ct)
        vw = np.full(vp.shape[0], basix.cell.volume(ct) / vp.shape[0], dtype=vp.dtype)
        for deg in range(31):
            add(cell, "vertex", deg, vp, vw)
    # two custom rules with the same points and different weights
    cp = np.array([[0.25, 0.5], [0.5, 0.125], [0.125, 0.125]])
    add("triangle", "custom-a", 0, cp, np.array([0.25, 0.125, 0.125]))
    add("triangle", "custom-b", 0, cp, np.array([0.125, 0.25, 0.125]))
    return rules, skipped


def rule_ids(chk):
    rules, skipped = _real_rules()
    d = tlc.stage("s4-rules", modules=["RuleIds"])
    inp = d / "rules.json"
    inp.write_text(json.dumps(rules))
    r = tlc.run(d, "RuleIds", cfg_text="INIT Init\nNEXT Next\nINVARIANT InjectiveAt\n", workers=1, env={"S4_RULES": str(inp)})
    tlc.must_ok(r, "RuleIds")
    if not r.ok:
        raise MachineryError("RuleIds.tla did not finish:\n" + r.out[-1500:])
    chk.add(states=r.distinct, transitions=r.generated)
    clashes = [(x[1] - 1, x[2] - 1) for x in _parse_printed(r.printed, "CLASH")]
    # one realisation per pair of distinct rules (many (scheme, degree) entries are the same rule)
    groups = {}
    for i, j in clashes:
        a, b = rules[i], rules[j]
        ka, kb = (a["cell"], a["pts"], a["wts"]), (b["cell"], b["pts"], b["wts"])
        g = groups.setdefault(tuple(sorted([ka, kb])), [])
        g.append((a, b))
    jobs = []
    for g in groups.values():
        a, b = min(g, key=lambda ab: (ab[0]["scheme"], ab[0]["degree"], ab[1]["scheme"], ab[1]["degree"]))
        jobs.append({"a": a, "b": b, "seed": chk.seed, "outdir": str(common.scratch("s4"))})
    out = {"rules": len(rules), "distinct_rules": len({(x["cell"], x["pts"], x["wts"]) for x in rules}), "skipped_unavailable": skipped,
           "pairs_checked": sum(1 for i in range(len(rules)) for j in range(i + 1, len(rules))
                                if rules[i]["cell"] == rules[j]["cell"] or {rules[i]["cell"], rules[j]["cell"]} == {"triangle", "quadrilateral"}),
           "clashing_entry_pairs": len(clashes), "clashing_rule_pairs": len(jobs), "realised": [], "samples": []}
    if jobs:
        with cf.ProcessPoolExecutor(max_workers=NPROC, mp_context=_ctx()) as ex:
            for res in ex.map(_realise, jobs):
                if res.get("machinery"):
                    raise MachineryError("realising a rule-id clash failed: " + res["machinery"])
                a, b = res["a"], res["b"]
                if a["scheme"].startswith("custom"):
                    tail = "same-points-different-weights"
                elif a["scheme"] == b["scheme"]:
                    tail = f"{a['scheme']}:{a['degree']}|{b['degree']}"
                else:
                    tail = f"{a['scheme']}:{a['degree']}|{b['scheme']}:{b['degree']}"
                cells = a["cell"] if a["cell"] == b["cell"] else f"{a['cell']}+{b['cell']}"
                key = f"C19:rule-id-clash:{cells}:{tail}"
                out["realised"].append({"key": key, "class": res["class"], "id": a["id"]})
                out["samples"].append(f"{key} -> {res['class']}")
                if res["class"] in ("compile-error", "wrong-values", "python-error"):
                    what = {"compile-error": "the generated C does not compile",
                            "wrong-values": "the module compiles but the kernel differs from the sum of the two separately compiled integrals (silently shared table)",
                            "python-error": "code generation raised"}[res["class"]]
                    chk.violation(key, f"quadrature rules {a['cell']}/{a['scheme']}/degree {a['degree']} ({a['n']} points) and "
                                       f"{b['cell']}/{b['scheme']}/degree {b['degree']} ({b['n']} points) are different rules with the same "
                                       f"QuadratureRule.id() '{a['id']}'; realised as f*v*dx(rule a) + g*v*dx(rule b): {what}: {res['detail'][-300:]}",
                                  {"engine": "S4", "a": a, "b": b, "class": res["class"], "detail": res["detail"][-3000:], "entry": None})
    return out


def _realise(job):
    a, b = job["a"], job["b"]
    with _Quiet(Path(job["outdir"]) / f"log-clash-{a['cell']}-{a['id']}-{a['scheme']}{a['degree']}-{b['scheme']}{b['degree']}.txt") as q:
        res = _realise1(job)
    if res.get("class") == "compile-error":
        errs = [ln for ln in q.text().splitlines() if "error:" in ln]
        res["detail"] = (" | ".join(e.split("error:", 1)[1].strip() for e in errs[:3]) or res["detail"])
    return res


def _realise1(job):
    """f*v*dx(rule a) + g*v*dx(rule b) through the real JIT; classify."""
    res = {"a": job["a"], "b": job["b"], "class": None, "detail": ""}
    try:
        common.ensure_repo_on_path()
        import ffcx.codegeneration.jit as J  # noqa: PLC0415
        import ufl  # noqa: PLC0415

        a, b = job["a"], job["b"]

        def measure(rule, m, name):
            if rule["scheme"].startswith("custom"):
                w = [0.25, 0.125, 0.125] if rule["scheme"] == "custom-a" else [0.125, 0.25, 0.125]
                md = {"quadrature_rule": "custom", "quadrature_points": np.array([[0.25, 0.5], [0.5, 0.125], [0.125, 0.125]]),
                      "quadrature_weights": np.array(w)}
                return ufl.Measure(name, domain=m, metadata=md)
            return ufl.Measure(name, domain=m, metadata={"quadrature_degree": rule["degree"], "quadrature_rule": rule["scheme"].split("+")[0]})
        opts = {"sum_factorization": True} if "sumfact" in a["scheme"] or "sumfact" in b["scheme"] else {}
        if a["cell"] == b["cell"]:
            cell, mname = a["cell"], "dx"
        else:
            cell, mname = "prism", "ds"
        m = kcorpus.tp_mesh(cell) if opts else kcorpus.mesh(cell)
        V = kcorpus.tp_space(m, 1) if opts else kcorpus.space(m, "Lagrange", 1)
        v = ufl.TestFunction(V)
        f, g = ufl.Coefficient(V), ufl.Coefficient(V)
        Fa, Fb = f * v * measure(a, m, mname), g * v * measure(b, m, mname)
        cdir = Path(job["outdir"]) / f"clash-{a['cell']}-{a['id']}-{a['scheme']}{a['degree']}-{b['scheme']}{b['degree']}"
        try:
            compiled, module, _ = J.compile_forms([Fa + Fb, Fa, Fb], options=opts, cache_dir=str(cdir), cffi_extra_compile_args=["-O0"])
        except Exception as e:  # noqa: BLE001
            res["class"] = "compile-error" if _phase_of(e) == "cc" else "python-error"
            detail = str(e)
            for p in cdir.glob("*.c.failed"):
                pass
            logs = list(cdir.glob("**/*.log")) + list(cdir.glob("*.txt"))
            res["detail"] = f"{type(e).__name__}: {detail}"[-3000:]
            return res
        # compare the combined kernel with the two single ones
        ffi = module.ffi
        nd = int(V.ufl_element().dim)
        rnd = random.Random(f"clash-{job['seed']}")
        wf, wg = (np.array([rnd.uniform(-1, 1) for _ in range(nd)]) for _ in range(2))
        ws = [np.concatenate([wf, wg]), wf, wg]          # the single forms have one coefficient each
        (sub,) = set(m.ufl_coordinate_element().sub_elements)
        pts = np.asarray(sub.basix_element.points)
        x = np.zeros((pts.shape[0], 3))
        x[:, :pts.shape[1]] = pts
        worst = 0.0
        nk = int(compiled[0].form_integral_offsets[5])
        for kk in range(nk):
            outs = []
            for cform, w in zip(compiled, ws):
                A = np.zeros(nd)
                integ = cform.form_integrals[kk]
                e = np.array([0, 0], dtype=np.intc)
                integ.tabulate_tensor_float64(ffi.cast("double*", A.ctypes.data), ffi.cast("double*", w.ctypes.data), ffi.NULL,
                                              ffi.cast("double*", x.ctypes.data), ffi.cast("int*", e.ctypes.data), ffi.NULL, ffi.NULL)
                outs.append(A)
            worst = max(worst, float(np.max(np.abs(outs[0] - outs[1] - outs[2])) / max(1e-300, float(np.max(np.abs(outs[1]) + np.abs(outs[2]))))))
        res["class"] = "benign" if worst < 1e-9 else "wrong-values"
        res["detail"] = f"relative deviation of the combined kernel from the sum of the single kernels: {worst:.3e}"
    except MachineryError as e:
        res["machinery"] = str(e)
    except Exception:  # noqa: BLE001
        res["machinery"] = traceback.format_exc()[-3000:]
    return res


# ============================================================================================= C19 (a) unsupported
def _unsupported_work(job):
    with _Quiet(Path(job["outdir"]) / f"log-uns-{job['case']}.txt"):
        return _unsupported_work1(job)


def _unsupported_work1(job):
    res = {"case": job["case"], "outcome": None, "exc": None, "cc_calls": None}
    try:
        common.ensure_repo_on_path()
        log = Path(job["outdir"]) / f"cc-{job['case']}.log"
        if log.exists():
            log.unlink()
        os.environ["CC"] = f"{common.PY} -S -E {common.VERIF / 'harness' / 's4cc.py'}"
        os.environ["S4_CC_LOG"] = str(log)
        import ffcx.codegeneration.jit as J  # noqa: PLC0415

        try:
            objs, opts, kind = kcorpus.UNSUPPORTED[job["case"]]()
            fn = J.compile_expressions if kind == "expr" else J.compile_forms
            fn(objs, options=opts, cache_dir=str(Path(job["outdir"]) / f"uns-{job['case']}"), cffi_extra_compile_args=["-O0"])
            res["outcome"] = "accepted"
        except (KeyboardInterrupt, SystemExit):
            raise
        except BaseException as e:  # noqa: BLE001  (UFL's ArityMismatch derives from BaseException)
            res["outcome"] = "raised"
            res["exc"] = f"{type(e).__name__}: {str(e)[:300]}"
        res["cc_calls"] = len(log.read_text().splitlines()) if log.exists() else 0
    except Exception:  # noqa: BLE001
        res["machinery"] = traceback.format_exc()[-2000:]
    return res


def run_unsupported(chk):
    """Constructs FFCx does not support must raise a Python exception before any C compiler process starts."""
    outdir = common.scratch("s4")
    jobs = [{"case": n, "outdir": str(outdir)} for n in kcorpus.UNSUPPORTED] + [{"case": "__control__", "outdir": str(outdir)}]
    kcorpus.UNSUPPORTED.setdefault("__control__", lambda: (kcorpus.build("mass_p1_interval")[0], {}, "form"))
    results = []
    with cf.ProcessPoolExecutor(max_workers=NPROC, mp_context=_ctx()) as ex:
        results = list(ex.map(_unsupported_work, jobs))
    summary = {}
    for r in results:
        if r.get("machinery"):
            raise MachineryError(f"unsupported-construct worker failed: {r['machinery']}")
        if r["case"] == "__control__":
            if r["outcome"] != "accepted" or not r["cc_calls"]:
                raise MachineryError(f"CC logging wrapper does not see compiler invocations (control: {r})")
            continue
        summary[r["case"]] = f"{r['outcome']} ({r['exc']}) cc_calls={r['cc_calls']}"
        if r["outcome"] == "raised" and r["cc_calls"]:
            chk.violation(f"C19:unsupported-reached-compiler:{r['case']}",
                          f"unsupported construct '{r['case']}' was not rejected before the C compiler: {r['cc_calls']} compiler "
                          f"invocation(s), then {r['exc']}", r)
        elif r["outcome"] == "accepted":
            chk.note(f"unsupported-family case {r['case']} was accepted and compiled ({r['cc_calls']} compiler calls) - not judged")
            chk.add(unsupported_cases_accepted=1)
    chk.add(unsupported_cases=summary, evaluations=len(summary), traces_validated_against_impl=len(summary))
    # A construct of the unsupported family that *is* accepted must at least yield kernels that stay inside the
    # extents of the UFCx contract (a cell expression that dereferences entity_local_index, ...): the accepted
    # cases are run through Kernel.tla like the C08 corpus
    acc = [r["case"] for r in results if r["outcome"] == "accepted" and r["case"] != "__control__"]
    if acc:
        for n in acc:
            fn = kcorpus.UNSUPPORTED[n]
            kcorpus._BUILDERS["accepted_" + n] = (lambda fn=fn: fn()[:2])
            kcorpus.ENTRIES["accepted_" + n] = ("quick", "expr" if fn()[2] == "expr" else "form")
        kernels, errors, _bst = build(chk, ["accepted_" + n for n in acc], nplanes=1)
        _report_build_errors(chk, errors, "C19 accepted unsupported-family cases")
        sel = _select(chk, kernels, 20000)
        for k in sel:
            k["runplanes"] = [1]
            choose_inis(k, chk.seed, 25000, 2)
        st = run_kernels(chk, sel, ["NoDeref", "InBounds"], "c19u")
        chk.add(unsupported_accepted_kernels_run=len(sel), evaluations=st["runs"])
    return summary
