"""Worker for engine S5: realises abstract cases as UFL forms, compiles them with the ffcx under test,
runs the generated kernels on integer data and writes (a) the Fem.tla input file, (b) the measured tensors.

  /venv/bin/python -m harness.s5w <job.json> <fem_out.json> <meas_out.json>
"""

from __future__ import annotations

import json
import random
import sys
import traceback

import numpy as np

from . import corpus, s5
from .basisx import OutOfModel


def count_nodes(t):
    if isinstance(t, dict):
        return 1 + sum(count_nodes(v) for v in t.values())
    if isinstance(t, list):
        return sum(count_nodes(v) for v in t)
    return 0


def count_sum_operands(t):
    if isinstance(t, dict):
        n = len(t["a"]) if t.get("t") == "sum" else 0
        return n + sum(count_sum_operands(v) for v in t.values())
    if isinstance(t, list):
        return sum(count_sum_operands(v) for v in t)
    return 0


def nops_of(prog):
    """Length of the longest accumulation chain in the kernel (not the total operation count): the rounding
    error of a sum of n products is bounded by ~n eps times the sum of the magnitudes."""
    n = 16
    for part in prog.parts:
        depth = len(json.dumps(part.tree)) // 400 + 2                      # nesting of products
        n += 32 * (count_sum_operands(part.tree) + 1) + depth
    n += max(prog.coef_dims + [0]) + 3 * prog.spaces[prog.coord].dim
    return n


def entity_confs(prog, item, rnd):
    """Which (entity, permutation) configurations to run for this program."""
    if prog.itype == "cell":
        return [([0], [0])]
    ne = prog.nentities()
    if prog.itype in ("exterior_facet", "vertex"):
        ents = list(range(ne))
        if item.get("max_entities") and len(ents) > item["max_entities"]:
            ents = rnd.sample(ents, item["max_entities"])
        return [([e], [0]) for e in ents]
    if prog.itype == "ridge":
        # every local ridge (or a sample); edges of 3D cells carry a reflection code (0 / 1) that the kernel applies to
        # the reference-ridge points: both codes with "allperms", else alternating over the ridges from a random start
        ents = list(range(ne))
        if item.get("max_entities") and len(ents) > item["max_entities"]:
            ents = sorted(rnd.sample(ents, item["max_entities"]))
        if s5.ridge_cellname(prog.cell) == "vertex":
            return [([e], [0]) for e in ents]
        if item.get("allperms"):
            return [([e], [p]) for e in ents for p in (0, 1)]
        p0 = rnd.randrange(2)
        return [([e], [(p0 + i) % 2]) for i, e in enumerate(ents)]
    # interior facets: the pair (entity on '-', geometry) is generated together (cells really share the facet)
    return None


def main():
    job = json.loads(open(sys.argv[1]).read())
    items = job["items"]
    orc = s5.Oracle()
    meas, skipped = [], []
    # 1. realise
    ready = []
    for idx, it in enumerate(items):
        try:
            if "builder" in it:
                mod_, fn = it["builder"].rsplit(".", 1)
                r = getattr(__import__(mod_, fromlist=[fn]), fn)(it)
            else:
                r = corpus.realise(it["case"], it["seed"])
            if "expr" in r:
                progs = s5.programs_of_expression(r["expr"], r["points"], it["scalar"], label=it.get("label", ""))
                ready.append((idx, it, r, progs))
                continue
            progs = s5.programs_of_form(r["form"], 0, it["scalar"], exact_ok=r.get("exact_ok", True),
                                        diagonal=it.get("options", {}).get("part") == "diagonal",
                                        label=it.get("label", ""))
            if it.get("itypes"):
                progs = [p for p in progs if p.itype in it["itypes"]]
            ready.append((idx, it, r, progs))
        except OutOfModel as e:
            skipped.append({"item": idx, "why": f"out of model: {e}"})
        except Exception as e:  # noqa: BLE001
            skipped.append({"item": idx, "why": f"realise failed: {type(e).__name__}: {e}", "tb": traceback.format_exc()[-1500:]})
    # 2. compile in modules of forms sharing scalar type and options
    groups = {}
    for rec in ready:
        it = rec[1]
        if "expr" in rec[2]:
            try:
                mod = s5.ExprModule([(rec[2]["expr"], rec[2]["points"])], it["scalar"], it.get("options", {}))
                rec[2]["descriptor"] = mod.descriptor(0)
                _run(orc, meas, skipped, rec[0], it, rec[2], rec[3], mod, 0)
            except Exception as e:  # noqa: BLE001
                skipped.append({"item": rec[0], "why": f"ffcx failed: {type(e).__name__}: {str(e)[:300]}",
                                "ffcx_error": True, "tb": traceback.format_exc()[-2500:]})
            continue
        groups.setdefault((it["scalar"], json.dumps(it.get("options", {}), sort_keys=True)), []).append(rec)
    for (scalar, optj), recs in groups.items():
        opts = json.loads(optj)
        for lo in range(0, len(recs), job.get("module_size", 8)):
            chunk = recs[lo:lo + job.get("module_size", 8)]
            mods = _compile(chunk, scalar, opts, skipped)
            for (idx, it, r, progs), (mod, k) in mods:
                _run(orc, meas, skipped, idx, it, r, progs, mod, k)
    json.dump(orc.dump(), open(sys.argv[2], "w"))
    json.dump({"meas": meas, "skipped": skipped}, open(sys.argv[3], "w"))


def _compile(chunk, scalar, opts, skipped):
    forms = [rec[2]["form"] for rec in chunk]
    if opts.get("language") == "numba":
        # numba backend: one module per form (a module that is not valid Python must not hide the others)
        out = []
        o2 = {k: v for k, v in opts.items() if k != "language"}
        for rec in chunk:
            try:
                cm = s5.Module([rec[2]["form"]], scalar, o2)       # a form the C backend rejects is no numba finding
            except Exception as e:  # noqa: BLE001
                skipped.append({"item": rec[0], "why": f"ffcx failed: {type(e).__name__}: {str(e)[:300]}",
                                "ffcx_error": True, "tb": traceback.format_exc()[-2500:]})
                continue
            try:
                nb = s5.NumbaModule([rec[2]["form"]], scalar, o2)
                rec[2]["nb_descriptor"] = nb.descriptor(0)
                rec[2]["c_descriptor"] = s5.c_descriptor(cm, 0)
                rec[2]["c_module"] = cm
                out.append((rec, (nb, 0)))
            except Exception as e:  # noqa: BLE001
                skipped.append({"item": rec[0], "why": f"numba backend failed: {type(e).__name__}: {str(e)[:300]}",
                                "ffcx_error": True, "numba_error": type(e).__name__, "tb": traceback.format_exc()[-2500:]})
        return out
    if any(rec[1].get("pre_list_options") is not None for rec in chunk):
        # history: the caller's *list* of forms is first compiled under other options, then under the item's own
        out = []
        for rec in chunk:
            try:
                lst = [rec[2]["form"]]
                if rec[1].get("pre_list_options") is not None:
                    s5.Module(lst, scalar, rec[1]["pre_list_options"])
                out.append((rec, (s5.Module(lst, scalar, opts), 0)))
            except Exception as e:  # noqa: BLE001
                skipped.append({"item": rec[0], "why": f"ffcx failed: {type(e).__name__}: {str(e)[:300]}",
                                "ffcx_error": True, "tb": traceback.format_exc()[-2500:]})
        return out
    if any(rec[1].get("twin_options") is not None for rec in chunk):
        # the same form compiled under a second option vector (option-independence law T[opts1] = T[opts2])
        out = []
        for rec in chunk:
            try:
                mod = s5.Module([rec[2]["form"]], scalar, opts)
                if rec[1].get("twin_options") is not None:
                    rec[2]["twin_module"] = s5.Module([rec[2]["form"]], scalar, rec[1].get("twin_options"))
                out.append((rec, (mod, 0)))
            except Exception as e:  # noqa: BLE001
                skipped.append({"item": rec[0], "why": f"ffcx failed: {type(e).__name__}: {str(e)[:300]}",
                                "ffcx_error": True, "tb": traceback.format_exc()[-2500:]})
        return out
    if any(rec[1].get("pre_compile") for rec in chunk):
        # history: the *same* UFL form object is first compiled for other scalar types in this process
        out = []
        for rec in chunk:
            try:
                for sc in rec[1].get("pre_compile", []):
                    s5.Module([rec[2]["form"]], sc, opts)
                out.append((rec, (s5.Module([rec[2]["form"]], scalar, opts), 0)))
            except Exception as e:  # noqa: BLE001
                skipped.append({"item": rec[0], "why": f"ffcx failed: {type(e).__name__}: {str(e)[:300]}",
                                "ffcx_error": True, "history_error": bool(rec[1].get("pre_compile")), "tb": traceback.format_exc()[-2500:]})
        return out
    try:
        mod = s5.Module(forms, scalar, opts)
        return [(rec, (mod, k)) for k, rec in enumerate(chunk)]
    except Exception:  # noqa: BLE001
        out = []
        for rec in chunk:
            try:
                mod = s5.Module([rec[2]["form"]], scalar, opts)
                out.append((rec, (mod, 0)))
            except Exception as e:  # noqa: BLE001
                skipped.append({"item": rec[0], "why": f"ffcx failed: {type(e).__name__}: {str(e)[:300]}",
                                "ffcx_error": True, "tb": traceback.format_exc()[-2500:]})
        return out


def _run(orc, meas, skipped, idx, it, r, progs, mod, k):
    scalar = it["scalar"]
    cx = scalar.startswith("complex") and not it.get("realdata")
    rnd = random.Random(it["seed"] * 7919 + 13)
    gkind = it.get("case", {}).get("geom", it.get("geom", "affine"))
    for prog in progs:
        prog.form_index = k
        if prog.itype != "expression" and isinstance(mod, s5.Module):
            # the compiled form must have the rank of the tensor that is about to be handed to its kernels (a kernel of
            # another rank would write outside A)
            have, want = int(mod.objs[k].rank), len(s5.tensor_shape(prog))
            if have != want:
                skipped.append({"item": idx, "why": f"ufcx_form.rank = {have} but the tensor of this form under these options "
                                f"has rank {want}", "rank_mismatch": True})
                return
        try:
            kernels = mod.kernels(k, prog.itype, prog.subdomain_id)
        except Exception as e:  # noqa: BLE001
            if not isinstance(mod, s5.NumbaModule):
                raise
            skipped.append({"item": idx, "why": f"numba form descriptor is inconsistent ({type(e).__name__}: {e}): "
                                                f"{r.get('nb_descriptor')} vs C {r.get('c_descriptor')}",
                            "ffcx_error": True, "numba_error": "descriptor", "tb": ""})
            continue
        if not kernels:
            skipped.append({"item": idx, "why": f"no kernel listed under ({prog.itype}, {prog.subdomain_id})", "missing_kernel": True})
            continue
        pi = orc.add_prog(prog)
        if prog.itype == "expression":
            if prog.etype == "cell":
                confs = [([0], [0])]
            else:
                ne = prog.nentities()
                ents = list(range(ne)) if not it.get("max_entities") else rnd.sample(range(ne), min(ne, it["max_entities"]))
                confs = [([e], [p]) for e in ents
                         for p in rnd.sample(range(s5.nperms(s5.facet_cellname(prog.cell, e))),
                                             min(it.get("nperm", 2), s5.nperms(s5.facet_cellname(prog.cell, e))))]
        else:
            confs = entity_confs(prog, it, rnd)
        plan = []                                   # (ent, perm, xs or None, extra)
        if it.get("explicit"):
            plan = [(e["ent"], e["perm"], e["x"], e) for e in it["explicit"]]
        elif confs is not None:
            plan = [(e, p, None, {}) for e, p in confs for _ in range(it.get("ninputs", 3))]
        else:
            ne = prog.nentities()
            for _ in range(it.get("npairs", 3)):
                fp = rnd.randrange(ne)
                for _ in range(it.get("ninputs", 2)):
                    try:
                        fm, xp, xm, match = s5.interior_pair(prog, rnd, fp, "pythag" if any(pt.geos for pt in prog.parts) else "affine")
                    except OutOfModel as e:
                        skipped.append({"item": idx, "why": f"out of model: {e}"})
                        continue
                    npm = s5.nperms(s5.facet_cellname(prog.cell, fp))
                    if it.get("allperms"):
                        # every permutation code on each side at least once (the sides get different codes)
                        sh = rnd.randrange(1, npm) if npm > 1 else 0
                        for k in range(npm):
                            plan.append(([fp, fm], [k, (k + sh) % npm], [xp, xm], {}))
                        continue
                    for _ in range(it.get("nperm", 2)):
                        plan.append(([fp, fm], [rnd.randrange(npm), rnd.randrange(npm)], [xp, xm], {}))
        for ent, perm, xs_given, extra in plan:
            use_oracle = extra.get("oracle", not it.get("no_oracle", False))
            if use_oracle:
                try:
                    ci = orc.conf(pi, ent, perm)
                except OutOfModel as e:
                    skipped.append({"item": idx, "why": f"out of model: {e}"})
                    continue
            if xs_given is not None:
                xs = xs_given
            else:
                xs = []
                gk = gkind
                if any(pt.geos for pt in prog.parts) and gkind == "affine":
                    gk = "pythag"
                if gkind == "nonaffine" and prog.itype == "cell" and any(
                        pt.nderiv >= 2 or (pt.nderiv >= 1 and any(s_["map"] != "identity" for sp in prog.spaces.values() for s_ in sp.subs))
                        for pt in prog.parts):
                    gk = "gentle"
                for s in range(prog.nsides):
                    fac = ent[s] if (prog.itype in ("exterior_facet", "interior_facet")
                                     or (prog.itype == "expression" and prog.etype == "facet")) else None
                    xs.append(s5.make_geometry(prog, gk, rnd, facet=fac, ridge=ent[s] if prog.itype == "ridge" else None))
            lo, hi = it.get("data_range", (-3, 3))
            w, c = s5.random_data(prog, rnd, cx, lo, hi)
            if extra.get("w") is not None:
                w = extra["w"]
            if extra.get("c") is not None:
                c = extra["c"]
            case = {"x": xs, "w": w, "c": c}
            shape = s5.tensor_shape(prog)
            n = int(np.prod(shape)) if shape else 1
            A0 = [rnd.randint(-5, 5) for _ in range(n)] if it.get("prefill") else [0] * n
            A = np.array(A0, dtype=np.dtype(scalar))
            w_, c_, x_ = s5.pack(prog, case, scalar)
            use = kernels
            if prog.cell == "prism" and prog.itype in ("exterior_facet", "interior_facet"):
                # one kernel per facet cell type: the per-integral cell-type tag says which applies
                import basix
                want = int(basix.CellType[s5.facet_cellname(prog.cell, ent[0])])
                use = [kk for kk in kernels if kk.domain == want]
            try:
                for kern in use:
                    mod.call(kern, A, w_, c_, x_, np.array(ent + [0], dtype=np.int32)[:2].copy(),
                             np.array(perm + [0], dtype=np.uint8)[:2].copy())
            except Exception as e:  # noqa: BLE001
                if not isinstance(mod, s5.NumbaModule):
                    raise
                skipped.append({"item": idx, "why": f"numba kernel failed when run: {type(e).__name__}: {str(e)[:300]}",
                                "ffcx_error": True, "numba_error": type(e).__name__, "tb": traceback.format_exc()[-1500:]})
                continue
            A = A - np.array(A0, dtype=np.dtype(scalar))
            c_twin = None
            if r.get("c_module") is not None:
                cm = r["c_module"]
                Ac = np.zeros(n, dtype=np.dtype(scalar))
                ck = cm.kernels(0, prog.itype, prog.subdomain_id)
                if prog.cell == "prism" and prog.itype in ("exterior_facet", "interior_facet"):
                    import basix
                    want_ = int(basix.CellType[s5.facet_cellname(prog.cell, ent[0])])
                    ck = [kk for kk in ck if kk.domain == want_]
                for kern in ck:
                    cm.call(kern, Ac, w_, c_, x_, np.array(ent + [0], dtype=np.int32)[:2].copy(),
                            np.array(perm + [0], dtype=np.uint8)[:2].copy())
                c_twin = {"A_c": [[float(z.real), float(z.imag)] for z in Ac.astype(complex)],
                          "nb_descriptor": r["nb_descriptor"], "c_descriptor": r["c_descriptor"]}
            if r.get("twin_module") is not None:
                tm = r["twin_module"]
                At = np.zeros(n, dtype=np.dtype(scalar))
                for kern in tm.kernels(0, prog.itype, prog.subdomain_id):
                    tm.call(kern, At, w_, c_, x_, np.array(ent + [0], dtype=np.int32)[:2].copy(),
                            np.array(perm + [0], dtype=np.uint8)[:2].copy())
                c_twin = {"A_twin": [[float(z.real), float(z.imag)] for z in At.astype(complex)]}
            c05 = None
            if it.get("poison_disabled") and prog.itype != "expression":
                fobj = mod.objs[k]
                ncoef = fobj.num_coefficients
                flags = [[bool(kk.enabled_coefficients[i]) for i in range(ncoef)] for kk in use]
                wp = w_.copy()
                offs = np.cumsum([0] + [d * prog.nsides for d in prog.coef_dims])
                A2 = np.zeros(n, dtype=np.dtype(scalar))
                for kk, fl in zip(use, flags):
                    wq = w_.copy()
                    for i in range(min(ncoef, len(prog.coef_dims))):
                        if not fl[i]:
                            wq[offs[i]:offs[i + 1]] = np.nan
                    mod.call(kk, A2, wq, c_, x_, np.array(ent + [0], dtype=np.int32)[:2].copy(),
                             np.array(perm + [0], dtype=np.uint8)[:2].copy())
                import ufl
                c05 = {"num_coefficients": ncoef, "flags": flags,
                       "positions": [int(fobj.original_coefficient_positions[i]) for i in range(ncoef)],
                       "expect_positions": [int(v) for v in r["expect_positions"]],
                       "constant_shapes": s5.c_descriptor(mod, k)["constant_shapes"],
                       "expect_constants": r.get("expect_constants"),
                       "used": sorted({lf["k"] for part in prog.parts for lf in part.cleaves}),
                       "A_poisoned": [[float(z.real), float(z.imag)] for z in A2.astype(complex)]}
            try:
                cid = orc.case(ci, xs, w, c) if use_oracle else None
            except OutOfModel as e:
                skipped.append({"item": idx, "why": f"out of model: {e}"})
                continue
            meas.append({"case": cid, "item": idx, "tag": extra.get("tag"), "w": w, "c": c, "x": xs,
                         "needs_perm": bool(getattr(use[0], "needs_facet_permutations", False)) if use else None, "c05": c05, "c_twin": c_twin, "nftab": sum(len(pt.ftabs) for pt in prog.parts), "A": [[float(z.real), float(z.imag)] for z in A.astype(complex)],
                         "scalar": scalar, "nops": nops_of(prog), "itype": prog.itype, "sid": prog.subdomain_id,
                         "ent": ent, "perm": perm, "nkernels": len(use), "descriptor": r.get("descriptor"),
                         "expect_descriptor": _expect_descr(prog, r) if prog.itype == "expression" else None})


def _expect_descr(prog, r):
    import ufl
    e = r["expr"]
    from ufl.algorithms.apply_algebra_lowering import apply_algebra_lowering
    from ufl.algorithms.apply_derivatives import apply_derivatives
    oc = ufl.algorithms.extract_coefficients(e)
    surv = ufl.algorithms.extract_coefficients(apply_derivatives(apply_algebra_lowering(e)))
    P = np.asarray(r["points"])
    return {"num_points": int(P.shape[0]), "entity_dimension": int(P.shape[1]),
            "points": [float(v) for v in P.reshape(-1)], "value_shape": [int(v) for v in prog.value_shape],
            "num_components": len(prog.value_shape), "rank": prog.rank,
            "num_coefficients": len(prog.coefs), "num_constants": len(prog.const_sizes),
            "original_coefficient_positions": [oc.index(c_) for c_ in surv]}


if __name__ == "__main__":
    main()
