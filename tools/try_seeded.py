#!/venv/bin/python
"""Try one seeded change: tools/try_seeded.py <worktree> <mutation dir> <seeded id> <check id> [<check id> ...]
Confirms the demonstration (exit 0 pristine, non-zero with the change), runs the named checks against the changed
tree (VERIF_REPO), restores the worktree, and files the change under /verif/seeded/<seeded id>/."""
import json
import os
import shutil
import subprocess
import sys
import time
from pathlib import Path

wt, mdir, sid, checks = Path(sys.argv[1]), Path(sys.argv[2]), sys.argv[3], sys.argv[4:]
V = Path(__file__).resolve().parents[1]
env = dict(os.environ, PYTHONPATH=str(wt), PYTHONHASHSEED="0")


def sh(cmd, **kw):
    return subprocess.run(cmd, shell=True, capture_output=True, text=True, **kw)


def demo():
    p = subprocess.run(["/venv/bin/python", str(mdir / "demo.py")], cwd=mdir, env=env, capture_output=True, text=True, timeout=1800)
    return p.returncode, (p.stdout + p.stderr)[-600:]


assert sh(f"git -C {wt} status --porcelain -- ffcx").stdout.strip() == "", "worktree not pristine"
r0, o0 = demo()
assert sh(f"git -C {wt} apply {mdir / 'patch.diff'}").returncode == 0, "patch does not apply"
results = {}
try:
    r1, o1 = demo()
    for c in checks:
        t = time.time()
        p = subprocess.run(["./check", c, "--tier", "quick"], cwd=V, env=dict(os.environ, VERIF_REPO=str(wt)), capture_output=True, text=True)
        viol = [ln for ln in p.stdout.splitlines() if ln.startswith("VIOLATION") or ln.startswith("  what:")]
        results[c] = {"exit": p.returncode, "wall_s": round(time.time() - t), "violations": viol[:6],
                      "tail": p.stdout.splitlines()[-2:] + p.stderr.splitlines()[-3:]}
finally:
    sh(f"git -C {wt} checkout -- ffcx")
dst = V / "seeded" / sid
dst.mkdir(parents=True, exist_ok=True)
shutil.copy(mdir / "patch.diff", dst / "patch.diff")
shutil.copy(mdir / "demo.py", dst / "demo.py")
meta = json.loads((mdir / "meta.json").read_text()) if (mdir / "meta.json").exists() else {}
meta["confirmed"] = {"demo_pristine_exit": r0, "demo_mutated_exit": r1, "demo_mutated_output": o1[-300:],
                     "base_commit": sh(f"git -C {wt} rev-parse --short HEAD").stdout.strip()}
meta["checks_run"] = results
meta["caught_by"] = [c for c, r in results.items() if r["exit"] == 1]
(dst / "meta.json").write_text(json.dumps(meta, indent=1))
print(sid, "demo", r0, "->", r1, "| caught by", meta["caught_by"], "|", {c: (r["exit"], r["wall_s"]) for c, r in results.items()})
for c, r in results.items():
    for v in r["violations"][:2]:
        print("   ", c, v[:220])
    if r["exit"] == 2:
        print("   ", c, "MACHINERY:", r["tail"])
