#!/bin/sh
# Offline set-up: nothing to build; verify the toolchain the checks need is present.
set -e
cd "$(dirname "$0")/.."
/venv/bin/python - <<'PY'
import sys
sys.path.insert(0, "/repo")
import ffcx, ufl, basix, numpy, cffi
print("ffcx from", ffcx.__file__)
PY
java -cp /opt/veriftools/tla/tla2tools.jar tlc2.TLC -h >/dev/null 2>&1 || true
test -f /opt/veriftools/tla/tla2tools.jar
mkdir -p evidence replay
echo setup ok
