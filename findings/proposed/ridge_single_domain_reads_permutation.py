"""OBSERVATION (not a C02 violation): a single-domain ridge kernel on a 3D cell depends on quadrature_permutation[0].

  /venv/bin/python findings/proposed/ridge_single_domain_reads_permutation.py        (PYTHONPATH=/repo or VERIF_REPO)

ufcx.h (ufcx_tabulate_tensor_*): "For integrals not on interior facets, this argument has no effect and a null
pointer can be passed."  ffcx/ir/elementtables.py (build_optimized_tables, entity_type == "ridge") says in its comment
that no permutation is needed "if it is a single domain ridge integral, as ridges has a global orientation in
DOLFINx", but the condition is `tdim < 3 or codim == 2`: with codim = tdim - tdim(element's cell) = 0 for every
element of a single-domain form, the tables are built for both reflections and indexed by quadrature_permutation[0]
(needs_facet_permutations = true).  With a rule that is not symmetric under s -> 1 - s the two codes give different
sums; a caller following the sentence in ufcx.h (null pointer) crashes.

FFCx's own test_ridge_integral passes both codes, so C02 treats the code as part of the interface and models the
reflection.  If the comment states the intention, the minimal patch is

    -                if tdim < 3 or codim == 2:
    +                if tdim < 3 or codim == 2 or not is_mixed_dim:

(and C02's ridge cases would then have to pass code 0 only / expect independence of the code); if the code states the
intention, the sentence in ufcx.h needs "and single-domain ridge integrals on 3D cells".
"""
import os
import sys

import numpy as np

sys.path.insert(0, os.environ.get("VERIF_REPO", "/repo"))

import basix.ufl  # noqa: E402
import ufl  # noqa: E402

import ffcx.codegeneration.jit  # noqa: E402

dom = ufl.Mesh(basix.ufl.element("Lagrange", "tetrahedron", 1, shape=(3,)))
V = ufl.FunctionSpace(dom, basix.ufl.element("Lagrange", "tetrahedron", 1))
v = ufl.TestFunction(V)
md = {"quadrature_rule": "custom", "quadrature_points": np.array([[0.25], [0.625]]), "quadrature_weights": np.array([0.375, 0.5])}
L = v * ufl.Measure("ridge")(metadata=md)
forms, module, code = ffcx.codegeneration.jit.compile_forms([L], options={"scalar_type": "float64"})
f = forms[0]
lo, hi = f.form_integral_offsets[4], f.form_integral_offsets[5]            # ridge = 4
assert hi - lo == 1
k = f.form_integrals[lo]
ffi = module.ffi
x = np.array([[0, 0, 0], [1, 0, 0], [0, 1, 0], [0, 0, 1]], dtype=np.float64)
out = []
for code_ in (0, 1):
    A = np.zeros(4)
    k.tabulate_tensor_float64(ffi.cast("double *", A.ctypes.data), ffi.NULL, ffi.NULL, ffi.cast("double *", x.ctypes.data),
                              ffi.cast("int *", np.array([5], dtype=np.int32).ctypes.data),      # edge 5 = (v0, v1), length 1
                              ffi.cast("uint8_t *", np.array([code_], dtype=np.uint8).ctypes.data), ffi.NULL)
    out.append(A)
    print("code", code_, "A =", A)
print("needs_facet_permutations =", bool(k.needs_facet_permutations))
# sum_q w_q phi_0(s_q) = 3/8 * 3/4 + 1/2 * 3/8 = 15/32 with code 0,  3/8 * 1/4 + 1/2 * 5/8 = 13/32 with code 1
print("kernel output depends on the code:", not np.allclose(out[0], out[1]))
